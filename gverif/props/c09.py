"""C09 — malformed Manifest text is always rejected with a syntax error, never misread.

Exhaustive enumeration of seven finite text families; every text is loaded by the real
``gemato.manifest.ManifestFile.load`` (from an ``io.StringIO``, ``verify_openpgp=False``)
and judged against the independent three-valued reference parser ``gverif.refmanifest``:

  A  field-wise grammar product (tag x path/timestamp x size x checksum tail x extra
     fields x separator x line ending x context)
  B  all token sequences of length <= 5 (quick) / <= 6 (thorough) over a 12-token
     alphabet, every gap independently ' ' or '\\n'
  C  every escape \\xHH, \\uHHHH, \\UHHHHHHHH (full ranges, see ESC_* below)
  D  single byte-level mutations of five valid Manifests (thorough: all ordered pairs
     of mutations of the shortest one)
  E  the character alphabet of the hex-digit positions of \\xHH / \\uHHHH / \\UHHHHHHHH:
     E1 = every choice of <= 2 positions (thorough: all 4 of \\u, <= 3 of \\U) of a valid
     base escape, each replaced by every member of a 40-member alphabet (ASCII digit,
     a-f, A-F, non-hex ASCII letters, ASCII punctuation, position deleted, decimal digits
     (category Nd) of 8 non-ASCII scripts incl. two astral ones, other non-ASCII
     digit-like / letter-like characters); E2 = every position independently one
     representative of a character class (8 classes for \\x and \\u, 4 (thorough 6) for \\U)
  F  the size field: every string of length <= 3 (thorough <= 4) over a 19-character
     alphabet (ASCII digits, sign, underscore, dot, e, x, a, backslash, non-ASCII Nd
     digits of 4 scripts, other non-ASCII numerics)
  G  the TIMESTAMP value: every choice of <= 2 of the 20 positions of two valid
     timestamps, each replaced by every member of a 26- (thorough 46-) member alphabet

The generators of A and D are re-used by C08 (fixed-point check of accepted texts).
"""

import io
import itertools
import re

from gemato.manifest import ManifestFile

from gverif import gem, refmanifest as rm, sigcap
from gverif.evidence import Stats

PID = 'C09'
LEVEL = 'exploration'
RULE = ('seven exhaustively enumerated text families (A grammar product, B token sequences with '
        'every line split, C every \\x/\\u/\\U escape value, D byte mutations of valid Manifests, '
        'E character alphabet of the hex-digit positions of the three escape forms [E1: <= 2 '
        '(thorough: \\u all 4, \\U <= 3) positions of a valid base escape x 40-member alphabet '
        'incl. deletion and non-ASCII decimal digits of 8 scripts; E2: all positions independently '
        'over one representative per character class], F all size strings of length <= 3 '
        '(thorough 4) over a 19-character alphabet, G <= 2 of the 20 positions of a valid timestamp '
        'x 26- (thorough 46-) member alphabet); '
        'each text = one load by the real parser, judged by the reference parser (ok / reject / '
        'dontcare) plus the unconditional rule that only ManifestSyntaxError/ManifestUnsignedData '
        'may escape.  Texts of B and C are pairwise distinct by construction; A and D contain a '
        'few coinciding texts (A < 0.02 %, D about 2 %) that are simply evaluated again.  '
        'To bound memory the distinct-case descriptor is coarser than the text: A = (tag, path, '
        'size, tail, extra) ignoring separator/ending/context; B = the token sequence for length '
        '<= 4, (length, first four tokens) beyond; C = (escape form, value >> 12); D = (manifest, '
        'position, operation[, second mutation position]); E1 = (form, base, position subset, '
        'alphabet member at the first chosen position), E2 = (form, first five classes); F = first '
        'three characters; G = (base, position subset, first alphabet member).  E, F and G contain '
        'coinciding texts where a replacement equals the base character or a deletion shifts the '
        'following text in; they are evaluated again.  A descriptor is non-trivial when at '
        'least one of its texts had a definite reference verdict (ok or reject) and contained a '
        'non-blank line; distinct_nontrivial counts those descriptors.')
ASSUMPTIONS = [
    'gverif/refmanifest.py is an independent restatement of the GLEP 74 line grammar and is '
    'trusted; it answers DONT_CARE for: non-ASCII/vertical whitespace inside a line and bare CR '
    '(gemato splits on any Unicode whitespace), sizes written +5 / 1_0 / -0 / with non-ASCII '
    'digits / longer than the CPython int conversion limit, duplicate checksum names, surrogate '
    'escape values, NUL in a path, non-normalised relative paths, non-canonical timestamp digit '
    'counts, leap seconds, timestamps with non-ASCII digits or lower-case t/z (strptime is '
    'case-insensitive and accepts Unicode digits)',
    'text is presented as io.StringIO (lines end at \\n only); OpenPGP armor lines are C04\'s '
    'business: no family generates one and a text containing "-----BEGIN PGP" is DONT_CARE for '
    'accept/reject',
    'small scope: one to five lines per text, fields from fixed menus; totality over arbitrary '
    'long texts is not claimed',
    'families E/F/G: the reference grammar admits ASCII hex digits only in an escape (anything '
    'else in a digit position, a non-ASCII decimal digit included, makes the escape invalid: '
    'MUST reject); for the size field the property says only "non-numeric or negative", so a '
    'string that is an integer numeral in some notation other than plain ASCII digits (+5, 1_0, '
    'non-ASCII Nd digits) is DONT_CARE for accept/reject while everything that is no integer '
    'numeral at all MUST be rejected; the same DONT_CARE applies to timestamps written with '
    'non-ASCII digits.  Non-ASCII characters are represented by the members of the stated '
    'alphabets (category Nd of Arabic-Indic, Extended Arabic-Indic, Devanagari, Bengali, Thai, '
    'Fullwidth, Mathematical Bold, Adlam; No/Nl/Lo numerics; look-alike letters); other '
    'scripts are not claimed.  In every case only the two library exceptions may escape',
]

ALLOWED_EXC = ('ManifestSyntaxError', 'ManifestUnsignedData')


# ---------------------------------------------------------------- running + judging

def load_text(text):
    m = ManifestFile()
    o = gem.call(m.load, io.StringIO(text), verify_openpgp=False)
    return m, o


_ESC_U = re.compile(r'\\U([0-9a-fA-F]{8})')
_ESC_ANY = re.compile(r'\\(x[0-9a-fA-F]{2}|u[0-9a-fA-F]{4}|U[0-9a-fA-F]{8})')


def input_family(text):
    """Coarse syntactic class of the input, used to name foreign-exception signatures
    independently of which defect the reference happens to report first."""
    if any(int(h, 16) > 0x10FFFF for h in _ESC_U.findall(text)):
        return 'escape_U_out_of_range'
    if any(0xD800 <= int(e[1:], 16) <= 0xDFFF for e in _ESC_ANY.findall(text)):
        return 'escape_surrogate'
    if _ESC_ANY.search(text):
        return 'escape_in_range'
    if '\\' in text:
        return 'backslash'
    if not text.isascii():
        return 'non_ascii'
    return 'plain'


def _variant(reason, fields):
    """Narrow a reference reject reason so that distinct defects get distinct sigs."""
    if reason == 'absolute path':
        return 'literal' if fields[1].startswith('/') else 'escaped'
    if reason == 'DIST with slash':
        return 'literal' if '/' in fields[1] else 'escaped'
    return None


def _first_line_failing_alone(text):
    for line in text.split('\n'):
        if not line.strip():
            continue
        _m, o = load_text(line + '\n')
        if o['kind'] == 'exc':
            f = line.split()
            return f[0] if f else None
    return None


def _entry_diff(got, want):
    if len(got) != len(want):
        return 'entry_count', None
    for g, w in zip(got, want):
        if g != w:
            if g[0] != w[0]:
                return 'tag', w[0]
            names = ('tag', 'path', 'size', 'checksums') if len(w) == 4 else ('tag', 'value')
            for k, (a, b) in enumerate(zip(g, w)):
                if a != b or type(a) is not type(b):
                    return names[k], w[0]
            return 'shape', w[0]
    return None, None


def judge(text, m, o, ref):
    """-> (outcome label, list of (sig, message))."""
    verdict, payload, info = ref
    armor = '-----BEGIN PGP' in text
    label = f'{verdict}/{gem.brief(o)}'
    out = []
    rtxt = verdict if verdict == 'ok' else f'{verdict}:{payload}'
    if o['kind'] == 'exc':
        exc = o['exc']
        if exc not in ALLOWED_EXC:
            sig = {'check': 'foreign_exception', 'exc': exc, 'where': o.get('where'),
                   'family': input_family(text)}
            out.append((sig, f'foreign exception {exc} ({o.get("msg", "")}) at {o.get("where")} '
                             f'escaped load of {text!a}; reference: {rtxt}'))
        elif verdict == 'ok' and not armor:
            sig = {'check': 'rejected_wellformed', 'exc': exc,
                   'tag': _first_line_failing_alone(text)}
            out.append((sig, f'reference accepts {text!a} but load raised {exc}'))
        elif verdict == 'reject' and exc == 'ManifestUnsignedData' and not armor:
            sig = {'check': 'wrong_exception', 'exc': exc, 'reason': rtxt}
            out.append((sig, f'{exc} without any armor line for {text!a}'))
        return label, out
    if armor:
        return label, out
    if verdict == 'reject':
        sig = {'check': 'accepted_malformed', 'reason': payload}
        v = _variant(payload, info['fields'])
        if v:
            sig['variant'] = v
        got = [rm.from_gemato(e) for e in m.entries]
        out.append((sig, f'malformed text accepted: {text!a}: reference rejects line '
                         f'{info["line"]} {info["fields"]!a} ({payload}); load returned {got!a}'))
    elif verdict == 'ok':
        got = [rm.from_gemato(e) for e in m.entries]
        if got != payload or m.openpgp_signed:
            what, tag = _entry_diff(got, payload)
            sig = {'check': 'misread', 'what': what or 'openpgp_signed', 'tag': tag}
            out.append((sig, f'misread {text!a}: load returned {got!a}, reference {payload!a}'))
    return label, out


def check_text(text, stats=None, case=None, fam=None):
    """Load one text with the real parser and judge it.  -> (violations, verdict)."""
    ref = rm.parse_ex(text)
    m, o = load_text(text)
    label, bad = judge(text, m, o, ref)
    if stats is not None:
        stats.evaluations += 1
        stats.transitions += 1
        stats.outcomes[label] += 1
        if fam:
            stats.counters[f'outcome_{fam} {label}'] += 1
        if ref[0] == 'dontcare':
            stats.dontcare[ref[1]] += 1
        else:
            stats.compared += 1
    vs = [{'sig': sig, 'case': case or {'text': text}, 'message': msg} for sig, msg in bad]
    if stats is not None:
        for v in vs:
            record_violation(stats, v)
    return vs, ref[0]


def record_violation(stats, v):
    """Count every violation per signature; write out at most 2 cases per signature
    over the whole run (see gverif.sigcap)."""
    stats.counters['viol ' + sigcap.sig_key(v['sig'])] += 1
    if sigcap.admit(v['sig']):
        stats.violation(v['sig'], v['case'], v['message'])


def setup(tier, seed, base):
    _selfcheck_alphabets()
    sigcap.setup()


def replay(case, scratch):
    return check_text(case['text'])[0]


# ---------------------------------------------------------------- family A: grammar product

NAMES = ['a', 'b', 'q', 'w', 'k']           # one-character names, rotated by the seed (presentation only)

TAGS_A = ['TIMESTAMP', 'MANIFEST', 'IGNORE', 'DATA', 'DIST', 'EBUILD', 'MISC', 'AUX',
          'FOO', 'data', '']


def paths_a(seed):
    n = NAMES[seed % len(NAMES)]
    d = NAMES[(seed + 1) % len(NAMES)]
    return [
        n, f'{d}/{n}', f'{n}\\x20{d}', f'{n}\\u00A0\\U0001F600', '\u00fc' + n,        # valid
        f'{d}\\x2F{n}',                                     # escaped slash inside (DIST rule)
        '',                                                  # missing
        f'/{n}', f'\\x2F{n}', f'\\u002F{n}', f'\\U0000002F{n}',      # absolute, 3 escaped ways
        '\\', f'{n}\\', '\\x4', '\\xZZ', '\\u12', '\\U0011', '\\q', '\\X41',  # bad escapes
        '\\U00110000', '\\UFFFFFFFF', '\\uD800', '\\x00',          # out of range / surrogate / NUL
        f'./{n}', f'{d}//{n}', f'{d}/', f'../{n}',                   # non-normalised (don't care)
    ]


TS_FORMS = [
    '2017-01-01T00:00:00Z', '0999-12-31T23:59:59Z', '0001-01-01T00:00:00Z',
    '9999-12-31T23:59:59Z', '2016-02-29T12:00:00Z',                       # valid
    '2017-01-01T00:00:00', '2017-13-01T00:00:00Z', '2017-02-30T00:00:00Z',
    '2017-01-01T24:00:00Z', '0000-01-01T00:00:00Z', '999-01-01T00:00:00Z',
    '2017-1-1T0:0:0Z', '2017-01-01T00:00:60Z', '2017-01-01t00:00:00z',
    '\u0662\u0660\u0661\u0667-01-01T00:00:00Z', '2017-01-01', '2017-01-01T00:00:00+00:00',
    '2017-01-01T00:00:00.5Z', '20170101T000000Z', '1483228800',
]

SIZES_A = ['0', '10', '', '-1', '1.5', '0x10', 'abc', '+5', '1_0', '\u0663', '-0', '007',
           '18446744073709551616', '1e3']

TAILS_A = [[], ['MD5', 'd41d8cd9'], ['MD5', 'd41d8cd9', 'SHA1', 'da39a3ee'],
           ['SHA1', 'da39a3ee', 'MD5', 'd41d8cd9'], ['MD5'], ['MD5', 'd41d8cd9', 'SHA1'],
           ['MD5', 'd41d8cd9', 'MD5', '00000000']]

EXTRAS_A = [[], ['extra'], ['extra', 'more']]

SEPS_A = [' ', '\t', '  ']
ENDS_A = ['\n', '\r\n', '']
CTX_A = ['alone', 'between']     # between = after a valid line + blank line, before a valid line


def grammar_shards(tier):
    return [('A', ti, si) for ti in range(len(TAGS_A)) for si in range(len(SEPS_A))]


def grammar_texts(spec, seed):
    """Yield (descriptor, text) for one family-A shard."""
    _f, ti, si = spec
    tag = TAGS_A[ti]
    sep = SEPS_A[si]
    plist = paths_a(seed) + TS_FORMS
    n = NAMES[(seed + 2) % len(NAMES)]
    before = f'DATA {n}0 1 MD5 00\n\n'
    after = f'IGNORE {n}1'
    for pi, p in enumerate(plist):
        for zi, sz in enumerate(SIZES_A):
            for ci, tail in enumerate(TAILS_A):
                for xi, extra in enumerate(EXTRAS_A):
                    fields = [f for f in [tag, p, sz] if f] + tail + extra
                    line = sep.join(fields)
                    if sep == '  ':
                        line = ' ' + line + ' '        # leading/trailing blanks as well
                    desc = ('A', ti, pi, zi, ci, xi)
                    for ei, end in enumerate(ENDS_A):
                        yield desc, line + end
                        yield desc, before + line + (end or '\n') + after + end


# ---------------------------------------------------------------- family B: token sequences

def tokens_b(seed):
    n = NAMES[seed % len(NAMES)]
    d = NAMES[(seed + 1) % len(NAMES)]
    return ['DATA', 'DIST', 'IGNORE', 'TIMESTAMP', n, f'{d}/{n}', '0', '-1', 'MD5',
            '2017-01-01T00:00:00Z', '\\x2F', '\\']


def b_maxlen(tier):
    return 5 if tier == 'quick' else 6


def b_shards(tier):
    return [('B', i, j) for i in range(12) for j in range(12)]


def b_texts(spec, tier, seed):
    """All token sequences starting with tokens (i, j), length 2..N (and the length-1
    sequence (i,) in shard j == 0), each gap independently ' ' or newline."""
    _f, i, j = spec
    toks = tokens_b(seed)
    N = b_maxlen(tier)
    if j == 0:
        yield ('B', (i,)), toks[i] + '\n'
    idx = range(12)
    for n in range(2, N + 1):
        gaps = list(itertools.product(' \n', repeat=n - 1))
        for rest in itertools.product(idx, repeat=n - 2):
            seq = (i, j) + rest
            ts = [toks[k] for k in seq]
            desc = ('B', seq) if n <= 4 else ('B', n, seq[:4])
            for g in gaps:
                parts = [ts[0]]
                for k in range(1, n):
                    parts.append(g[k - 1])
                    parts.append(ts[k])
                parts.append('\n')
                yield desc, ''.join(parts)


# ---------------------------------------------------------------- family C: escapes

ESC_U_FULL_END = 0x111000          # \U values 0 .. 0x110FFF inclusive
ESC_BLOCK = 0x8000                 # values per \U shard


def sparse_U_values():
    """All 32-bit values with <= 2 non-zero hex digits plus three explicit corners,
    minus those already inside the full range."""
    vals = {0x7FFFFFFF, 0x80000000, 0xFFFFFFFF}
    for p1 in range(8):
        for d1 in range(16):
            for p2 in range(8):
                for d2 in range(16):
                    vals.add((d1 << (4 * p1)) | (d2 << (4 * p2)) if p1 != p2 else (d1 << (4 * p1)))
    return sorted(v for v in vals if v >= ESC_U_FULL_END)


def c_shards(tier):
    out = [('C', 'x', 0, 0x100)]
    out += [('C', 'u', lo, lo + 0x4000) for lo in range(0, 0x10000, 0x4000)]
    out += [('C', 'U', lo, min(lo + ESC_BLOCK, ESC_U_FULL_END))
            for lo in range(0, ESC_U_FULL_END, ESC_BLOCK)]
    out.append(('C', 'Usparse', 0, 0))
    return out


_FMT = {'x': ('\\x%02X', '\\x%02x'), 'u': ('\\u%04X', '\\u%04x'), 'U': ('\\U%08X', '\\U%08x')}


def c_texts(spec, seed):
    _f, kind, lo, hi = spec
    n = NAMES[seed % len(NAMES)]
    d = NAMES[(seed + 1) % len(NAMES)]
    if kind == 'Usparse':
        values = sparse_U_values()
        form = 'U'
    else:
        values = range(lo, hi)
        form = kind
    up, low = _FMT[form]
    for v in values:
        desc = ('C', kind, v >> 12)
        eu = up % v
        el = low % v
        escs = (eu,) if eu == el else (eu, el)
        for e in escs:
            yield desc, f'DATA {e} 0\n'
            yield desc, f'IGNORE {e}\n'
            yield desc, f'DATA {n}{e}{d} 3 MD5 00\n'


# ---------------------------------------------------------------- family D: byte mutations

MUT_BYTES = [0x20, 0x0A, 0x09, 0x0D, 0x5C, 0x2F, 0x2D, 0x30, 0x78, 0x00, 0x85, 0x7F, 0x1F,
             0x5F, 0x2B, 0x7A]
MUT_OPS = ['delete', 'duplicate', 'replace', 'insert']

_TEN = [('BLAKE2B', 'b2b0'), ('BLAKE2S', 'b2s0'), ('MD5', 'd41d8cd9'), ('RMD160', '9c1185a5'),
        ('SHA1', 'da39a3ee'), ('SHA256', 'e3b0c442'), ('SHA3_256', 'a7ffc6f8'),
        ('SHA3_512', 'a69f73cc'), ('SHA512', 'cf83e135'), ('WHIRLPOOL', '19fa61d7')]


def base_manifests(seed):
    """Five valid Manifests (bytes, UTF-8).  Names rotate with the seed."""
    n = NAMES[seed % len(NAMES)]
    d = NAMES[(seed + 1) % len(NAMES)]
    m0 = f'TIMESTAMP 2017-01-01T00:00:00Z\nDATA {n} 1 MD5 0f\n'
    m1 = rm.write([
        ('MANIFEST', f'{d}/Manifest', 12, (('SHA1', 'aa11'),)),
        ('IGNORE', f'{d}/tmp'),
        ('DATA', f'{d}/{n}.txt', 10, (('MD5', '00ff'), ('SHA1', '11ee'))),
        ('DIST', f'{n}-1.tar.gz', 5, (('SHA512', 'abcdef'),)),
        ('EBUILD', f'{n}-1.ebuild', 0, ()),
        ('MISC', 'metadata.xml', 7, (('MD5', '77'),)),
        ('AUX', f'{n}.patch', 3, (('MD5', '33'),)),
    ])
    m2 = (f'DATA \u00fc/\U0001F600{n} 3 SHA256 ab\n'
          f'DATA {n}\\x20{d}\\u00A0c\\U0001F600 0\n'
          f'IGNORE \\x5Cx41{n}\n'
          f'MISC {d}\\x5C 1\n')
    m3 = (f'  DATA\t{n}  4 MD5 aa \r\n'
          '\r\n'
          '\n'
          f'DIST {d}.bin 2\tSHA1 bb\r\n'
          'TIMESTAMP 1999-12-31T23:59:59Z')
    m4 = rm.write([('DATA', f'{n}/{d}/big', 2 ** 64, tuple(_TEN))])
    return [t.encode('utf8') for t in (m0, m1, m2, m3, m4)]


def mutate(data, pos, op, byte):
    if op == 'delete':
        return data[:pos] + data[pos + 1:]
    if op == 'duplicate':
        return data[:pos + 1] + data[pos:]
    if op == 'replace':
        return data[:pos] + bytes([byte]) + data[pos + 1:]
    if op == 'insert':
        return data[:pos] + bytes([byte]) + data[pos:]
    raise ValueError(op)


def single_mutations(data):
    """Yield ((pos, op, byte), mutated bytes), duplicates of the original excluded."""
    for pos in range(len(data) + 1):
        for op in MUT_OPS:
            if op in ('delete', 'duplicate'):
                if pos < len(data):
                    yield (pos, op, None), mutate(data, pos, op, None)
            elif op == 'replace':
                if pos < len(data):
                    for b in MUT_BYTES:
                        if b != data[pos]:
                            yield (pos, op, b), mutate(data, pos, op, b)
            else:
                for b in MUT_BYTES:
                    yield (pos, op, b), mutate(data, pos, op, b)


def mutation_shards(tier, seed=0):
    out = [('D', mi, op) for mi in range(5) for op in MUT_OPS]
    if tier == 'thorough':
        n0 = len(base_manifests(seed)[0])
        out += [('D2', pos) for pos in range(n0 + 1)]
    return out


def mutation_texts(spec, seed, counters=None):
    """Yield (descriptor, text).  Mutants that are not valid UTF-8 are skipped (counted)."""
    bases = base_manifests(seed)

    def emit(desc, data):
        try:
            return desc, data.decode('utf8')
        except UnicodeDecodeError:
            if counters is not None:
                counters['D_skipped_invalid_utf8'] += 1
            return None

    if spec[0] == 'D':
        _f, mi, op = spec
        for (pos, o, b), data in single_mutations(bases[mi]):
            if o != op:
                continue
            r = emit(('D', mi, pos, o, b), data)
            if r:
                yield r
    else:
        _f, pos1 = spec
        for (p, o, b), d1 in single_mutations(bases[0]):
            if p != pos1:
                continue
            for (p2, o2, b2), d2 in single_mutations(d1):
                r = emit(('D2', p, o, b, p2), d2)
                if r:
                    yield r


# ---------------------------------------------------------------- family E: escape digit alphabet

# What may stand in a hex-digit position of an escape.  The reference grammar admits the 22
# ASCII hex digits only; every other member must make the escape invalid.
ALPHA_CLASSES = [
    ('digit', ['0', '1', '9']),
    ('lower_hex', ['a', 'f']),
    ('upper_hex', ['A', 'F']),
    ('ascii_letter', ['g', 'G', 'x', 'z']),                    # x: "0x" prefix of int(s, 16)
    ('ascii_punct', ['+', '-', '_', '.', '/', '\\']),          # sign / digit-group characters of int()
    ('deleted', ['']),
    # decimal digits (category Nd) outside ASCII: Arabic-Indic 0 and 2, Extended Arabic-Indic 2,
    # Devanagari 0 and 2, Bengali 2, Thai 2, Fullwidth 0 and 2, Mathematical Bold 2, Adlam 2
    ('nonascii_Nd', ['\u0660', '\u0662', '\u06f2', '\u0966', '\u0968', '\u09e8', '\u0e52',
                     '\uff10', '\uff12', '\U0001d7d0', '\U0001e952']),
    # numeric but not decimal: superscript two, one half, circled one (No); roman two, ideographic
    # zero (Nl); CJK two (Lo)
    ('nonascii_numeric', ['\u00b2', '\u00bd', '\u2460', '\u2161', '\u3007', '\u4e8c']),
    # look-alike letters: fullwidth A / f, Cyrillic a; e-acute; zero width space (Cf)
    ('nonascii_other', ['\uff21', '\uff46', '\u0430', '\u00e9', '\u200b']),
]
ALPHA_E = [c for _n, cs in ALPHA_CLASSES for c in cs]
ESC_WIDTH = {'x': 2, 'u': 4, 'U': 8}
E_BASES = {'x': ['2F'], 'u': ['002f', '20AC'], 'U': ['0000002F', '0001f600']}


def e_depth(tier, form, bi):
    """Largest number of simultaneously replaced positions (family E1)."""
    if form == 'x':
        return 2                                   # = all positions
    if form == 'u':
        return 4 if tier != 'quick' and bi == 0 else 2      # thorough: all positions (once)
    if tier == 'quick':
        return 2
    return 3 if bi == 0 else 2


def _subsets(n, depth):
    return [c for k in range(depth + 1) for c in itertools.combinations(range(n), k)]


def esc_contexts(seed):
    n = NAMES[seed % len(NAMES)]
    d = NAMES[(seed + 1) % len(NAMES)]
    return ['DATA %s 0\n', 'IGNORE %s\n', f'DATA {n}%s{d} 3 MD5 00\n']


# E2: one representative per class and position.  Coarser class sets for the 8-position form.
E2_CLASSES = {
    8: ['digit', 'lower_hex', 'upper_hex', 'ascii_letter', 'ascii_punct', 'nonascii_Nd',
        'nonascii_numeric', 'nonascii_other'],
    6: ['digit', 'hex_letter', 'ascii_nonhex', 'nonascii_Nd', 'nonascii_numeric', 'nonascii_other'],
    4: ['hex', 'ascii_nonhex', 'nonascii_Nd', 'nonascii_nondecimal'],
}
_E2_MERGED = {
    'hex_letter': ['lower_hex', 'upper_hex'],
    'ascii_nonhex': ['ascii_letter', 'ascii_punct'],
    'hex': ['digit', 'lower_hex', 'upper_hex'],
    'nonascii_nondecimal': ['nonascii_numeric', 'nonascii_other'],
}


def e2_nclasses(tier, form):
    if form != 'U':
        return 8
    return 4 if tier == 'quick' else 6


def e2_rep(cls, pos, width, seed):
    """The representative of character class ``cls`` at digit position ``pos``: members of the
    class taken in rotation over position (and seed); the digit class is '0' in the leading
    positions so that all-hex combinations include in-range values."""
    if cls in _E2_MERGED:
        parts = _E2_MERGED[cls]
        cls = parts[(pos + seed) % len(parts)]
    if cls == 'digit':
        return '0' if pos < width - 2 else '2719'[(pos + seed) % 4]
    members = dict(ALPHA_CLASSES)[cls]
    return members[(pos + seed) % len(members)]


def e_shards(tier):
    out = []
    for form in 'xuU':
        w = ESC_WIDTH[form]
        for bi in range(len(E_BASES[form])):
            out += [('E', form, bi, sub) for sub in _subsets(w, e_depth(tier, form, bi))]
        k = e2_nclasses(tier, form)
        out += [('E2', form, c0, c1) for c0 in range(k) for c1 in range(k)]
    # biggest first
    out.sort(key=lambda s: -(len(s[3]) if s[0] == 'E' else ESC_WIDTH[s[1]] - 5))
    return out


def e_texts(spec, tier, seed):
    ctxs = esc_contexts(seed)
    form = spec[1]
    w = ESC_WIDTH[form]
    if spec[0] == 'E':
        _f, _form, bi, sub = spec
        base = E_BASES[form][bi]
        for choice in itertools.product(range(len(ALPHA_E)), repeat=len(sub)):
            digs = list(base)
            for p, k in zip(sub, choice):
                digs[p] = ALPHA_E[k]
            e = '\\' + form + ''.join(digs)
            desc = ('E', form, bi, sub, choice[0] if choice else -1)
            for c in ctxs:
                yield desc, c % e
    else:
        _f, _form, c0, c1 = spec
        k = e2_nclasses(tier, form)
        names = E2_CLASSES[k]
        for rest in itertools.product(range(k), repeat=w - 2):
            cl = (c0, c1) + rest
            e = '\\' + form + ''.join(e2_rep(names[c], p, w, seed) for p, c in enumerate(cl))
            desc = ('E2', form, cl[:5])
            for c in ctxs:
                yield desc, c % e


# ---------------------------------------------------------------- family F: size strings

ALPHA_F = ['0', '1', '9', '-', '+', '_', '.', 'e', 'x', 'a', '\\',
           '\u0663', '\u0969', '\uff13', '\U0001d7d1',              # Nd three: Arabic-Indic, Devanagari, Fullwidth, Math Bold
           '\u00b2', '\u00bd', '\u2162', '\u3007']                  # superscript two, one half, roman three, ideographic zero


def f_maxlen(tier):
    return 3 if tier == 'quick' else 4


def f_shards(tier):
    return [('F', i) for i in range(len(ALPHA_F))]


def f_texts(spec, tier, seed):
    _f, i = spec
    n = NAMES[seed % len(NAMES)]
    d = NAMES[(seed + 1) % len(NAMES)]
    ctxs = [f'DATA {n} %s\n', f'DIST {d}{n} %s MD5 00\n']
    for ln in range(1, f_maxlen(tier) + 1):
        for rest in itertools.product(range(len(ALPHA_F)), repeat=ln - 1):
            seq = (i,) + rest
            sz = ''.join(ALPHA_F[k] for k in seq)
            desc = ('F', seq[:3])
            for c in ctxs:
                yield desc, c % sz


# ---------------------------------------------------------------- family G: timestamp characters

TS_BASES = ['2017-01-01T00:00:00Z', '1999-12-31T23:59:59Z']
ALPHA_G_QUICK = ['0', '1', '2', '5', '9', '-', ':', 'T', 'Z', 't', 'z', '+', '.', '_', 'a', '/',
                 '\\', '', '\u0662', '\u06f2', '\u0968', '\uff12', '\U0001d7d0',
                 '\u00b2', '\u2161', '\u3007']


def alpha_g(tier):
    if tier == 'quick':
        return ALPHA_G_QUICK
    return ALPHA_G_QUICK + [c for c in ALPHA_E if c not in ALPHA_G_QUICK]


def g_shards(tier):
    return [('G', bi, p0) for bi in range(len(TS_BASES)) for p0 in range(-1, len(TS_BASES[bi]))]


def g_texts(spec, tier, seed):
    """Shard (bi, p0): the base itself (p0 == -1) or all replacements at position p0 alone and
    at p0 together with one later position."""
    _f, bi, p0 = spec
    base = TS_BASES[bi]
    n = NAMES[seed % len(NAMES)]
    ctxs = ['TIMESTAMP %s\n', f'TIMESTAMP %s\nDATA {n} 0\n']
    if p0 < 0:
        for c in ctxs:
            yield ('G', bi, (), -1), c % base
        return
    al = alpha_g(tier)
    subs = [(p0,)] + [(p0, q) for q in range(p0 + 1, len(base))]
    for sub in subs:
        for choice in itertools.product(range(len(al)), repeat=len(sub)):
            chars = list(base)
            for p, k in zip(sub, choice):
                chars[p] = al[k]
            ts = ''.join(chars)
            desc = ('G', bi, sub, choice[0])
            for c in ctxs:
                yield desc, c % ts


def _selfcheck_alphabets():
    """The alphabets are what the docstring says they are (checked against unicodedata)."""
    import unicodedata as ud
    cls = dict(ALPHA_CLASSES)
    assert len(ALPHA_E) == len(set(ALPHA_E)) == 40, len(ALPHA_E)
    assert all(c.isascii() for k in ('digit', 'lower_hex', 'upper_hex', 'ascii_letter', 'ascii_punct')
               for c in cls[k])
    assert all(c in rm._HEX for k in ('digit', 'lower_hex', 'upper_hex') for c in cls[k])
    assert not any(c in rm._HEX for k in ('ascii_letter', 'ascii_punct') for c in cls[k])
    assert all(ud.category(c) == 'Nd' and not c.isascii() for c in cls['nonascii_Nd'])
    scripts = {ud.name(c).rsplit(' DIGIT ', 1)[0] for c in cls['nonascii_Nd']}
    assert len(scripts) == 8, scripts
    assert all(ud.category(c) != 'Nd' and not c.isascii()
               for k in ('nonascii_numeric', 'nonascii_other') for c in cls[k])
    assert all(ud.numeric(c, None) is not None for c in cls['nonascii_numeric'])
    assert not any(c.isspace() for c in ALPHA_E + ALPHA_F + ALPHA_G_QUICK)
    assert len(ALPHA_F) == len(set(ALPHA_F)) == 19
    assert len(ALPHA_G_QUICK) == len(set(ALPHA_G_QUICK)) == 26 and len(alpha_g('thorough')) == 46
    assert all(ud.category(c) == 'Nd' for c in ALPHA_F[11:15])
    for form, bases in E_BASES.items():
        for b in bases:
            assert len(b) == ESC_WIDTH[form] and rm.unescape_path('\\' + form + b)[0] == 'ok'
    for b in TS_BASES:
        assert len(b) == 20 and rm.parse(f'TIMESTAMP {b}\n')[0] == 'ok'


# ---------------------------------------------------------------- shards

def shards(tier, seed):
    b = b_shards(tier)
    c = c_shards(tier)
    a = grammar_shards(tier)
    d = mutation_shards(tier, seed)
    e = e_shards(tier)
    fg = g_shards(tier) + f_shards(tier)
    # most expensive first
    return b + e + c + a + d + fg if tier == 'thorough' else c + b + a + d + e + fg


def texts_for(spec, tier, seed, counters=None):
    f = spec[0]
    if f == 'A':
        return grammar_texts(spec, seed)
    if f == 'B':
        return b_texts(spec, tier, seed)
    if f == 'C':
        return c_texts(spec, seed)
    if f in ('E', 'E2'):
        return e_texts(spec, tier, seed)
    if f == 'F':
        return f_texts(spec, tier, seed)
    if f == 'G':
        return g_texts(spec, tier, seed)
    return mutation_texts(spec, seed, counters)


NEW_FAMILIES = 'EFG'


def run_shard(spec, tier, seed, scratch):
    stats = Stats()
    fam = spec[0][0]
    if fam == 'D' and spec[0] == 'D':
        base = base_manifests(seed)[spec[1]].decode('utf8')
        if rm.parse(base)[0] != 'ok' or load_text(base)[1]['kind'] != 'ret':
            raise AssertionError(f'base manifest {spec[1]} is not valid: {base!r}')
    cur = None
    cur_nt = False
    n = 0
    # a few written-out cases: from the first shard of each family only
    sample_at = {('A', 3, 0): (1, 40000), ('B', 0, 4): (2000,), ('C', 'x', 0, 0x100): (200,),
                 ('D', 2, 'replace'): (100, 777), ('E', 'u', 0, (1, 2)): (2500,),
                 ('F', 11): (30,), ('G', 0, 3): (1000,)}.get(spec, ())
    for desc, text in texts_for(spec, tier, seed, stats.counters):
        if desc != cur:
            if cur is not None:
                stats.case(cur, cur_nt)
            cur, cur_nt = desc, False
        _vs, verdict = check_text(text, stats, {'text': text, 'family': fam, 'desc': repr(desc)},
                                  fam if fam in NEW_FAMILIES else None)
        if verdict != 'dontcare' and text.strip():
            cur_nt = True
        n += 1
        if n in sample_at:
            stats.sample({'family': fam, 'text': text, 'reference': verdict})
    if cur is not None:
        stats.case(cur, cur_nt)
    stats.counters['texts_family_' + fam] += n
    if spec[0] in ('E', 'E2'):
        stats.counters[f'texts_family_{spec[0] if spec[0] == "E2" else "E1"}_form_{spec[1]}'] += n
    return stats


def finish(total, tier):
    errs = []
    seen = {k.split('/')[0] for k in total.outcomes}
    for need in ('ok', 'reject', 'dontcare'):
        if need not in seen:
            errs.append(f'vacuity: no text with reference verdict {need!r}')
    for fam in 'ABCD' + NEW_FAMILIES:
        if not total.counters.get('texts_family_' + fam):
            errs.append(f'vacuity: family {fam} produced no text')
    for fam in NEW_FAMILIES:
        # each of these families must exercise both sides of the grammar: a single outcome
        # class (or no accepted / no rejected text) means the alphabet does not reach the field
        cls = {k.split(' ', 1)[1] for k, v in total.counters.items()
               if k.startswith(f'outcome_{fam} ') and v}
        if len(cls) < 2:
            errs.append(f'vacuity: family {fam} produced the single outcome class {sorted(cls)}')
        for need in ('ok/ret', 'reject/exc:ManifestSyntaxError', 'dontcare/'):
            if need == 'dontcare/' and fam == 'E':
                continue        # the escape grammar has no open region of its own
            if not any(c.startswith(need) for c in cls):
                errs.append(f'vacuity: family {fam} has no text with outcome {need}*')
    for form in 'xuU':
        for part in ('E1', 'E2'):
            if not total.counters.get(f'texts_family_{part}_form_{form}'):
                errs.append(f'vacuity: family {part} produced no \\{form} escape')
    if not any(k.startswith('ok/ret') for k in total.outcomes):
        errs.append('vacuity: no well-formed text was accepted')
    if not any(k.startswith('reject/exc:ManifestSyntaxError') for k in total.outcomes):
        errs.append('vacuity: no malformed text was rejected with ManifestSyntaxError')
    if total.compared < total.evaluations // 3:
        errs.append('vacuity: most texts are DONT_CARE')
    # exact size of family C (independent closed form)
    return errs


def extra_evidence(total, tier):
    return {'space': {
        'A': f'{len(TAGS_A)} tags x {len(paths_a(0)) + len(TS_FORMS)} path/timestamp forms x '
             f'{len(SIZES_A)} sizes x {len(TAILS_A)} checksum tails x {len(EXTRAS_A)} extras x '
             f'{len(SEPS_A)} separators x {len(ENDS_A)} endings x {len(CTX_A)} contexts',
        'B': f'sum over n=1..{b_maxlen(tier)} of 12^n token sequences x 2^(n-1) line splits',
        'C': '\\xHH 256 values; \\uHHHH 65536; \\UHHHHHHHH 0..0x110FFF plus '
             f'{len(sparse_U_values())} sparse 32-bit values; each as DATA path, IGNORE path and '
             'embedded between two names, upper and (where different) lower case hex',
        'D': f'5 manifests x every position x {MUT_OPS} x {len(MUT_BYTES)} bytes '
             '(valid UTF-8 only)' + ('; all ordered pairs on manifest 0' if tier == 'thorough' else ''),
        'E': 'E1: per escape form and valid base escape ' + repr(E_BASES) + ', every set of <= '
             + repr({f: [e_depth(tier, f, bi) for bi in range(len(E_BASES[f]))] for f in 'xuU'})
             + f' digit positions, each replaced by every member of the {len(ALPHA_E)}-member '
             'alphabet ' + repr([(n, len(c)) for n, c in ALPHA_CLASSES]) + '; E2: every position '
             'independently one representative of '
             + repr({f: E2_CLASSES[e2_nclasses(tier, f)] for f in 'xuU'})
             + '; each escape as DATA path, IGNORE path and embedded between two names',
        'F': f'sum over n=1..{f_maxlen(tier)} of {len(ALPHA_F)}^n size strings over '
             + ascii(ALPHA_F) + ' x 2 line contexts (DATA without, DIST with a checksum pair)',
        'G': f'{len(TS_BASES)} valid timestamps x every set of <= 2 of 20 positions x '
             f'{len(alpha_g(tier))}-member alphabet ' + ascii(alpha_g(tier))
             + ' x 2 contexts (alone, followed by a DATA line)',
    }}
