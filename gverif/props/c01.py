"""C01 — recursive verification accepts exactly the trees that match their Manifests.

Stateless exploration of the real `assert_directory_verifies` and `gemato verify`
over families of small trees x Manifest layouts x mutation sets; every execution
is compared with gverif.refverify.expected_verify (three-valued).
"""

import itertools
import os

from gverif import gem, refmanifest as rm, refverify
from gverif.common import CONTENTS, DIR_NAMES, FILE_NAMES, HASHSETS, fresh_root, other_content, rot
from gverif.evidence import Stats
from gverif.explore import explore
from gverif.treemodel import COMPS, MSpec, MT, Tree, mname, render_layout

PID = 'C01'
LEVEL = 'model_checking'
RULE = ('families F1-F9 of DESIGN.md §C01/§7: every tree shape x layout x mutation set within the '
        'tier bound is materialised on tmpfs and verified by the real library call and the real '
        'CLI; a case is a (family, parameters, mutation list) descriptor; non-trivial = at least '
        'one mutation / duplicate / IGNORE / sub-path / last_mtime is active and the reference '
        'verdict is definite (not DONT_CARE)')
ASSUMPTIONS = [
    'reference verdict gverif/refverify.py is an independent restatement of the statement; '
    'trusted base: CPython os/hashlib/gzip/bz2/lzma and gverif/refmanifest.py',
    'small scope: <=4 data files, <=3 directories, nesting <=2, <=1 (quick) / <=2 (thorough) mutations',
    'tmpfs only; no symlink loops or device boundaries here (C16); no I/O faults (C06)',
    'F6 (last_mtime): file mtime in {T, T+.25, T+.75} x last_mtime in {None, T-1, T, T+.25, T+.5, T+.75, T+1} x change kind x '
    'content x hash set x 1-2 files: the shortcut may skip content only when st_mtime <= last_mtime exactly',
    'F9 (CLI with several paths): k = 2..3 (thorough 4) paths, sub-directories of ONE tree or SEPARATE trees, every '
    'subset of them broken (altered / deleted / stray file), with and without --keep-going: exit 0 iff every path matches',
]

TOP = 'Manifest'


# ---------------------------------------------------------------- judging

def judge(v, o, iface):
    """-> None | (sigdict, message).  o is a gem observation."""
    kind = v.kind
    b = gem.brief(o)
    if iface == 'cli':
        ok = o.get('exit') == 0
        fail = isinstance(o.get('exit'), int) and o.get('exit') != 0      # "non-zero exit status"
        exc = o['exc'] if o['kind'] == 'exc' and o.get('class') != 'exit' else None
        mismatch = fail and any(lv == 'ERROR' for lv, _ in o['log'])
        incompat = mismatch
    else:
        ok = o['kind'] == 'ret' and o['value'] is True
        exc = o['exc'] if o['kind'] == 'exc' else None
        mismatch = exc == 'ManifestMismatch'
        incompat = exc in ('ManifestIncompatibleEntry', 'ManifestMismatch')
    internal = o['kind'] == 'exc' and o.get('class') == 'internal'
    enotdir = (o['kind'] == 'exc' and o.get('class') == 'oserror' and o.get('errno') == 20)

    def viol(what):
        sig = {'check': what, 'iface': iface, 'expected': kind, 'got': b}
        if internal:
            sig['where'] = o.get('where')
        return (sig, f'{what}: reference says {kind}, {iface} gave {b} '
                f'(offenders={dict(v.offenders)}, chain={v.chain_broken}, conflicts={v.conflicts})')

    if kind == 'dontcare':
        return None
    if kind == 'match':
        if not ok:
            return viol('rejected_matching_tree')
        return None
    if ok:
        if kind == 'soft':
            return None
        return viol('accepted_non_matching_tree')
    if internal:
        return viol('internal_error')
    if kind == 'soft':
        return None if mismatch else viol('wrong_failure')
    if kind == 'incompatible':
        return None if incompat else viol('wrong_failure')
    # mismatch
    if mismatch:
        if iface == 'lib':
            allowed = set(v.offenders) | set(v.chain_broken)
            if o.get('path') not in allowed:
                return viol('mismatch_names_innocent_path')
        return None
    if v.enotdir and enotdir:
        return None
    if v.oserror and o['kind'] == 'exc' and o.get('class') == 'oserror':
        return None      # an object that cannot even be stat()ed (symlink cycle): a genuine OS error is fine
    if v.conflicts and incompat:
        return None
    return viol('wrong_failure')


def check_multi(case, scratch, stats=None):
    """F9: one CLI invocation over SEVERAL paths (sub-directories of one tree and/or separate trees): it succeeds
    iff every path verifies."""
    roots = []
    for i, tj in enumerate(case['trees']):
        r = fresh_root(scratch, f't{i}')
        Tree.from_json(tj).write(r)
        roots.append(r)
    kinds = []
    args = []
    for n, item in enumerate(case['multi']):
        ti, path = item[0], item[1]
        v = refverify.expected_verify(roots[ti], TOP, path, None)
        kinds.append(v.kind)
        real = os.path.join(roots[ti], path) if path else roots[ti]
        if len(item) > 2:
            # the argument is a directory symlink OUTSIDE the tree that leads to this directory; what has to be
            # verified is the directory the link leads to, whatever the link is called
            ldir = fresh_root(scratch, f'l{n}')
            os.makedirs(ldir, exist_ok=True)
            os.symlink(real, os.path.join(ldir, item[2]))
            real = os.path.join(ldir, item[2])
        args.append(real)
    want_ok = all(k == 'match' for k in kinds)
    definite = all(k in ('match', 'mismatch') for k in kinds)
    o = gem.cli(['verify'] + list(case['flags']) + args)
    ok = o.get('exit') == 0
    fail = isinstance(o.get('exit'), int) and o.get('exit') != 0
    if stats is not None:
        stats.evaluations += 1
        stats.transitions += 1
        stats.compared += 1 if definite else 0
        stats.outcomes[f'multi:{"match" if want_ok else "mismatch"}/cli/{gem.brief(o)}'] += 1
    out = []
    if definite:
        what = None
        if want_ok and not ok:
            what = 'multi_path_rejected_matching_trees'
        elif not want_ok and ok:
            what = 'multi_path_accepted_non_matching_tree'
        elif not want_ok and not fail:
            what = 'multi_path_wrong_failure'
        if what:
            sig = {'check': what, 'iface': 'cli', 'flags': list(case['flags']), 'got': gem.brief(o)}
            out.append({'sig': sig, 'case': case,
                        'message': f'{what}: gemato verify {" ".join(case["flags"])} over paths with reference verdicts '
                                   f'{kinds} gave {gem.brief(o)} exit={o.get("exit")!r} ({case["desc"]})'})
    return out, kinds


def check_case(case, scratch, stats=None):
    """Materialise the concrete case, run lib + cli, judge.  -> violations."""
    if 'multi' in case:
        return check_multi(case, scratch, stats)
    root = fresh_root(scratch)
    Tree.from_json(case['tree']).write(root)
    path = case.get('path', '')
    lm = case.get('last_mtime')
    v = refverify.expected_verify(root, TOP, path, lm)
    out = []
    kw = {}
    if lm is not None:
        kw['last_mtime'] = lm
    o_lib = gem.lib_verify(root, TOP, path, **kw)
    obs = [('lib', o_lib)]
    if lm is None:
        o_cli = gem.cli(['verify', os.path.join(root, path) if path else root])
        obs.append(('cli', o_cli))
    for iface, o in obs:
        j = judge(v, o, iface)
        if stats is not None:
            stats.transitions += 1
            stats.outcomes[f'{v.kind}/{iface}/{gem.brief(o)}'] += 1
        if j:
            out.append({'sig': j[0], 'case': case, 'message': j[1]})
    for sp in case.get('single_paths', ()):
        exp, detail = refverify.expected_path_verify(root, TOP, sp)
        o = gem.call(lambda: gem.loader(root, TOP).assert_path_verifies(sp))
        b = gem.brief(o)
        if stats is not None:
            stats.transitions += 1
            stats.outcomes[f'path:{exp}/{b}'] += 1
            if exp != 'dontcare':
                stats.counters['single_path_compared'] += 1
        bad = None
        if exp == 'pass' and b != 'ret:None':
            bad = 'single_path_rejected'
        elif exp == 'mismatch' and b != 'exc:ManifestMismatch':
            bad = 'single_path_accepted' if o['kind'] == 'ret' else 'single_path_wrong_failure'
        if bad:
            sig = {'check': bad, 'iface': 'assert_path_verifies', 'expected': exp, 'got': b}
            out.append({'sig': sig, 'case': dict(case, single_paths=[sp]),
                        'message': f'{bad}: path {sp!r}: reference {exp} ({detail}), got {b}'})
    if stats is not None:
        stats.evaluations += 1
        if v.kind == 'dontcare':
            stats.dontcare[v.dc[0] if v.dc else '?'] += 1
        else:
            stats.compared += 1
    return out, v


def replay(case, scratch):
    return check_case(case, scratch)[0]


# ---------------------------------------------------------------- scenarios

from gverif.scen import Scenario  # noqa: E402


def names(seed):
    return rot(FILE_NAMES, seed), rot(DIR_NAMES, seed)


def entry_muts(sc, p):
    """Entry-level mutation menu for data file p: list of (label, fn(sc))."""
    spec = idx = None
    for s in sc.specs:
        for i, it in enumerate(s.items):
            if it[0] == 'F' and it[2] == p:
                spec, idx = s, i
    if spec is None:
        return []
    _k, tag, full, hashes = spec.items[idx]
    data = sc.tree.files[p]
    rel = full[len(spec.dir) + 1:] if spec.dir else full
    if tag == 'AUX':
        rel = rel[len('files/'):]
    good = rm.file_entry(tag, rel, data, hashes)
    out = []

    def drop(sc):
        del spec.items[idx]
    out.append(('drop', drop))
    if hashes:
        def corrupt(sc):
            h, val = good[3][0]
            bad = ('1' if val[0] != '1' else '2') + val[1:]
            spec.items[idx] = ('E', (tag, rel, good[2], ((h, bad),) + good[3][1:]))
        out.append(('baddigest', corrupt))

    def badsize(sc):
        spec.items[idx] = ('E', (tag, rel, good[2] + 1, good[3]))
    out.append(('badsize', badsize))

    def dup_ok(sc):
        spec.items.append(('F', tag, full, ('SHA512',)))
    out.append(('dup_compat', dup_ok))

    def dup_bad(sc):
        hs = hashes or ('SHA1',)
        spec.items.append(('E', rm.file_entry(tag, rel, data + b'!', hs)))
    out.append(('dup_conflict', dup_bad))
    return out


def file_muts(sc, p):
    data = sc.tree.files[p]
    out = []

    def delete(t):
        del t.files[p]
    out.append(('delete', delete))
    oc = other_content(data, True)
    if oc is not None:
        def same(t):
            t.files[p] = oc
        out.append(('alter_same_size', same))

    def size(t):
        t.files[p] = other_content(data, False)
    out.append(('alter_size', size))

    def todir(t):
        del t.files[p]
        t.dirs.add(p)
    out.append(('to_dir', todir))
    others = [q for q in sorted(sc.tree.files) if q != p and sc.tree.files[q] != data]
    if others:
        q = others[0]

        def tolink(t):
            del t.files[p]
            t.links[p] = os.path.relpath(q, os.path.dirname(p))
        out.append(('to_symlink_other', tolink))

    def tobroken(t):
        del t.files[p]
        t.links[p] = 'nonexistent-target'
    out.append(('to_broken_symlink', tobroken))
    return out


def dir_muts(d):
    j = (lambda n: os.path.join(d, n) if d else n)

    def stray(t):
        t.files[j('zz')] = b'stray'

    def hidden(t):
        t.files[j('.zz')] = b'stray'

    def subdir(t):
        t.files[j('zd/zz')] = b'stray'

    def hidden_dir(t):
        t.files[j('.zd/zz')] = b'stray'

    def empty_dir(t):
        t.dirs.add(j('zd'))

    def to_file(t):
        # the directory itself becomes a regular file: everything listed beneath it is missing now
        for p in [p for p in t.files if p.startswith(d + '/')]:
            del t.files[p]
        for p in [p for p in t.links if p.startswith(d + '/')]:
            del t.links[p]
        for p in [p for p in t.dirs if p == d or p.startswith(d + '/')]:
            t.dirs.discard(p)
        t.files[d] = b'was a directory'
    out = [('stray_file', stray), ('stray_hidden', hidden), ('stray_subdir', subdir),
           ('stray_in_hidden_dir', hidden_dir), ('empty_dir', empty_dir)]
    if d:
        out.append(('dir_to_file', to_file))
    return out


def manifest_tamper(mp):
    def f(t):
        t.files[mp] = t.files[mp] + (b'\n' if not mp.endswith(('gz', 'bz2', 'lzma', 'xz')) else b'\0')
    return ('tamper_submanifest', f)


def run_mutations(make_scenario, bound, desc0, paths, stats, scratch, with_entry=True, single=False):
    """Explore all mutation sets of size <= bound over the scenario."""
    viols = []

    def body(ch):
        sc = make_scenario()
        applied = []
        data_files = sorted(sc.tree.files)
        if with_entry:
            for p in data_files:
                menu = entry_muts(sc, p)
                k = ch.choose(len(menu) + 1, f'entry:{p}', deviation=True)
                if k:
                    applied.append((p, menu[k - 1][0]))
                    menu[k - 1][1](sc)
        posts = []
        for p in data_files:
            menu = file_muts(sc, p)
            k = ch.choose(len(menu) + 1, f'file:{p}', deviation=True)
            if k:
                applied.append((p, menu[k - 1][0]))
                posts.append(menu[k - 1][1])
        for d in sorted(sc.tree.all_dirs() | {''}):
            menu = dir_muts(d)
            k = ch.choose(len(menu) + 1, f'dir:{d}', deviation=True)
            if k:
                applied.append((d, menu[k - 1][0]))
                posts.append(menu[k - 1][1])
        subs = [s.path for s in sc.specs if s.path != TOP]
        for mp in subs:
            k = ch.choose(2, f'manifest:{mp}', deviation=True)
            if k:
                applied.append((mp, 'tamper'))
                posts.append(manifest_tamper(mp)[1])
        sc.post = posts
        try:
            tree = sc.build()
        except (KeyError, IsADirectoryError):
            return None      # mutation combination not constructible (e.g. file deleted twice)
        objs = set(tree.files) | set(tree.links)
        for q in list(tree.files) + list(tree.links) + list(tree.dirs):
            anc = os.path.dirname(q)
            while anc:
                if anc in objs:
                    return None      # something placed beneath what another mutation turned into a regular file
                anc = os.path.dirname(anc)
        if any(q in objs for q in tree.dirs):
            return None
        path = ch.pick(paths, 'path')
        return tree, path, applied

    for ch, res in explore(body, bound=bound):
        if res is None:
            continue
        tree, path, applied = res
        desc = (desc0, tuple(applied), path)
        case = {'tree': tree.to_json(), 'path': path, 'desc': repr(desc)}
        if single and path == '':
            case['single_paths'] = sorted(set(tree.files) | set(make_scenario().tree.files))
        vs, v = check_case(case, scratch, stats)
        stats.case(desc, nontrivial=bool(applied or path) and v.kind != 'dontcare')
        if len(stats.samples) < 2 and applied:
            stats.sample({'desc': repr(desc), 'verdict': v.kind, 'files': sorted(tree.files)})
        for x in vs:
            stats.violation(x['sig'], x['case'], x['message'])
    return viols


# ---- F1: shapes x single top Manifest x mutation sets

SHAPES = [
    ['{f0}'],
    ['{f0}', '{f1}'],
    ['{f0}', '{d0}/{f1}'],
    ['{d0}/{f0}', '{d0}/{f1}', '{f2}'],
    ['{f0}', '{d0}/{f1}', '{d0}/{d1}/{f2}'],
    ['{d0}/{f0}', '{d1}/{f1}', '{f2}', '{f3}'],
    ['{d0}/{d1}/{f0}', '{d0}/{f1}'],
]


def shape_paths(shape, seed):
    fn, dn = names(seed)
    sub = {f'f{i}': fn[i] for i in range(4)}
    sub.update({f'd{i}': dn[i] for i in range(3)})
    return [s.format(**sub) for s in shape]


def f1_shards(tier, seed):
    out = []
    tags = ['DATA', 'MISC'] if tier == 'quick' else ['DATA', 'MISC', 'EBUILD']
    for si in range(len(SHAPES)):
        for hi in range(len(HASHSETS)):
            for tag in tags:
                out.append(('F1', si, hi, tag))
    return out


def f1_run(spec, tier, seed, scratch, stats):
    _f, si, hi, tag = spec
    paths = shape_paths(SHAPES[si], seed)
    conts = rot(CONTENTS, seed + si)
    files = {p: conts[i % len(conts)] for i, p in enumerate(paths)}
    hashes = HASHSETS[hi]

    def make():
        items = [('F', tag, p, hashes) for p in sorted(files)]
        return Scenario(files, [MSpec(TOP, items)])
    dirs = sorted(Tree(files).all_dirs())
    vpaths = [''] + dirs
    bound = 1 if tier == 'quick' else 2
    if tier == 'thorough' and (len(files) > 3):
        vpaths = ['']       # keep the pair product affordable on the largest shapes
    run_mutations(make, bound, spec, vpaths, stats, scratch)


# ---- F2: nested / compressed / sibling Manifests, entry placement

def f2_shards(tier, seed):
    out = []
    # which of d, d/e hold a Manifest; compression of each; placement of files
    for have_d, have_e in [(1, 0), (0, 1), (1, 1)]:
        comps_d = COMPS if have_d else (None,)
        comps_e = COMPS if have_e else (None,)
        for cd in comps_d:
            for ce in comps_e:
                out.append(('F2', have_d, have_e, cd, ce))
    for cd in COMPS:
        out.append(('F2sib', cd))
    return out


def f2_run(spec, tier, seed, scratch, stats):
    fn, dn = names(seed)
    d, e = dn[0], dn[0] + '/' + dn[1]
    f0, f1, f2 = fn[0], d + '/' + fn[1], e + '/' + fn[2]
    conts = rot(CONTENTS, seed)
    files = {f0: conts[0], f1: conts[1], f2: conts[2]}
    hashes = ('SHA1',)
    if spec[0] == 'F2sib':
        cd = spec[1]
        ma, mb = mname(d, cd, 'Manifest.a'), mname(d, None, 'Manifest.b')

        def make():
            return Scenario(files, [
                MSpec(TOP, [('F', 'DATA', f0, hashes), ('M', ma, hashes), ('M', mb, ())]),
                MSpec(ma, [('F', 'DATA', f1, hashes)]),
                MSpec(mb, [('F', 'DATA', f2, ('MD5',))]),
            ])
        run_mutations(make, 1, spec, ['', d, e], stats, scratch, with_entry=False)
        return
    _f, have_d, have_e, cd, ce = spec
    md, me = mname(d, cd), mname(e, ce)
    # placements: f1 in d-Manifest or top; f2 in e-, d- or top Manifest
    homes1 = ([md] if have_d else []) + [TOP]
    homes2 = ([me] if have_e else []) + ([md] if have_d else []) + [TOP]
    for h1 in homes1:
        for h2 in homes2:
            def make(h1=h1, h2=h2):
                items = {TOP: [('F', 'DATA', f0, hashes)], md: [], me: []}
                items[h1].append(('F', 'DATA', f1, hashes))
                items[h2].append(('F', 'DATA', f2, hashes))
                specs = []
                if have_e:
                    parent = md if have_d else TOP
                    items[parent].append(('M', me, hashes))
                if have_d:
                    items[TOP].append(('M', md, ('MD5', 'SHA1')))
                specs.append(MSpec(TOP, items[TOP]))
                if have_d:
                    specs.append(MSpec(md, items[md]))
                if have_e:
                    specs.append(MSpec(me, items[me]))
                return Scenario(files, specs)
            run_mutations(make, 1, (spec, h1, h2), ['', d, e], stats, scratch,
                          with_entry=(tier == 'thorough'))


# ---- F3: one file listed twice

PAIR_TAGS = ('DATA', 'MISC', 'EBUILD', 'AUX', 'MANIFEST', 'IGNORE')
DUP_HASHSETS = [(('SHA1',), ('SHA1',)), (('SHA1',), ('MD5',)),
                (('MD5', 'SHA1'), ('MD5', 'SHA256')), ((), ('SHA1',)), ((), ())]


def f3_shards(tier, seed):
    return [('F3', t1, placement) for t1 in PAIR_TAGS for placement in ('same', 'parent_child')]


def f3_run(spec, tier, seed, scratch, stats):
    _f, t1, placement = spec
    fn, dn = names(seed)
    # the duplicated file lives in files/ so that AUX can name it
    d = dn[0]
    full = f'{d}/files/{fn[0]}'
    cs = [b'a', b'b', b'aa']
    sub = mname(d)
    for t2 in PAIR_TAGS:
        for (h1, h2) in DUP_HASHSETS:
            for c1, c2, actual in itertools.product(cs, cs, cs):
                def ent(tag, c, hs, mdir):
                    rel = full[len(mdir) + 1:] if mdir else full
                    if tag == 'IGNORE':
                        return ('E', ('IGNORE', rel))
                    if tag == 'AUX':
                        if not rel.startswith('files/'):
                            return None
                        rel = rel[len('files/'):]
                    return ('E', rm.file_entry(tag, rel, c, hs))
                if placement == 'same':
                    e1, e2 = ent(t1, c1, h1, d), ent(t2, c2, h2, d)
                    if e1 is None or e2 is None:
                        continue
                    specs = [MSpec(TOP, [('M', sub, ('SHA1',))]), MSpec(sub, [e1, e2])]
                else:
                    e1, e2 = ent(t1, c1, h1, ''), ent(t2, c2, h2, d)
                    if e1 is None or e2 is None:
                        continue
                    specs = [MSpec(TOP, [e1, ('M', sub, ('SHA1',))]), MSpec(sub, [e2])]
                sc = Scenario({full: actual}, specs)
                tree = sc.build()
                desc = (spec, t2, h1, h2, c1, c2, actual)
                case = {'tree': tree.to_json(), 'path': '', 'desc': repr(desc)}
                vs, v = check_case(case, scratch, stats)
                stats.case(desc, nontrivial=v.kind != 'dontcare')
                for x in vs:
                    stats.violation(x['sig'], x['case'], x['message'])


# ---- F3b: duplicate entries whose individual hash values are independently right or wrong

def f3b_shards(tier, seed):
    return [('F3b', placement, hi) for placement in ('same', 'parent_child') for hi in range(3)]


def f3b_run(spec, tier, seed, scratch, stats):
    _f, placement, hi = spec
    fn, dn = names(seed)
    d = dn[0]
    full = f'{d}/{fn[0]}'
    actual, other = b'actual content', b'OTHER!!content'      # same size
    H1, H2 = [(('MD5', 'SHA1'), ('MD5', 'SHA256')), (('MD5', 'SHA512'), ('MD5', 'SHA1', 'SHA256')),
              (('SHA1',), ('MD5', 'SHA1', 'SHA512'))][hi]
    sub = mname(d)
    cells = [(0, h) for h in H1] + [(1, h) for h in H2]
    for bits in itertools.product((True, False), repeat=len(cells)):
        for order in (0, 1):
            ents = []
            for ei, hs in ((0, H1), (1, H2)):
                cks = tuple(sorted((h, rm.hexdigest(h, actual if bits[cells.index((ei, h))] else other)) for h in hs))
                ents.append(cks)
            if order:
                ents = ents[::-1]

            def ent(cks, mdir):
                rel = full[len(mdir) + 1:] if mdir else full
                return ('E', ('DATA', rel, len(actual), cks))
            if placement == 'same':
                specs = [MSpec(TOP, [('M', sub, ('SHA1',))]), MSpec(sub, [ent(ents[0], d), ent(ents[1], d)])]
            else:
                specs = [MSpec(TOP, [ent(ents[0], ''), ('M', sub, ('SHA1',))]), MSpec(sub, [ent(ents[1], d)])]
            tree = Scenario({full: actual}, specs).build()
            desc = (spec, bits, order)
            case = {'tree': tree.to_json(), 'path': '', 'desc': repr(desc)}
            vs, v = check_case(case, scratch, stats)
            stats.case(desc, nontrivial=v.kind != 'dontcare')
            for x in vs:
                stats.violation(x['sig'], x['case'], x['message'])


# ---- F4: IGNORE (component-wise) and hidden names

def f4_shards(tier, seed):
    return [('F4', kind, where, sib) for kind in ('dir', 'file') for where in ('top', 'nested_from_top', 'nested_from_sub')
            for sib in ('file_listed', 'file_stray', 'dir_listed', 'dir_stray', 'none')]


def f4_run(spec, tier, seed, scratch, stats):
    _f, kind, where, sib = spec
    base = '' if where == 'top' else 'd'
    j = (lambda n: f'{base}/{n}' if base else n)
    ign, look = j('a'), j('ab')
    inside_opts = ['clean', 'stray', 'listed_ok', 'listed_bad'] if kind == 'dir' else ['clean']
    hidden_opts = ['none', 'stray_hidden_file', 'stray_hidden_dir', 'listed_hidden_ok',
                   'listed_hidden_altered', 'listed_hidden_missing', 'listed_in_hidden_dir_ok',
                   'listed_in_hidden_dir_missing']
    for inside, hidden, vpath in itertools.product(inside_opts, hidden_opts, ['', base] if base else ['']):
        files = {'keep': b'k'}
        top_items = [('F', 'DATA', 'keep', ('SHA1',))]
        sub_items = []
        listed = top_items
        if where == 'nested_from_sub':
            listed = sub_items
        if kind == 'dir':
            files[ign + '/x'] = b'x'
            if inside == 'stray':
                files[ign + '/y'] = b'y'
        else:
            files[ign] = b'ignored-file'
        if where == 'nested_from_sub':
            sub_items.append(('E', ('IGNORE', 'a')))
        else:
            top_items.append(('E', ('IGNORE', ign)))
        post = []
        if inside in ('listed_ok', 'listed_bad'):
            rel = (ign + '/x')
            if listed is sub_items:
                rel = 'a/x'
            listed.append(('E', rm.file_entry('DATA', rel, b'x' if inside == 'listed_ok' else b'Q', ('SHA1',))))
        if sib == 'file_listed':
            files[look] = b'L'
            listed.append(('F', 'DATA', look, ('SHA1',)))
        elif sib == 'file_stray':
            files[look] = b'L'
        elif sib == 'dir_listed':
            files[look + '/z'] = b'L'
            listed.append(('F', 'DATA', look + '/z', ('SHA1',)))
        elif sib == 'dir_stray':
            files[look + '/z'] = b'L'
        hp = j('.hid')
        if hidden == 'stray_hidden_file':
            files[hp] = b'h'
        elif hidden == 'stray_hidden_dir':
            files[hp + '/f'] = b'h'
        elif hidden.startswith('listed_hidden'):
            files[hp] = b'h'
            listed.append(('F', 'DATA', hp, ('SHA1',)))
            if hidden == 'listed_hidden_altered':
                post.append(lambda t: t.files.__setitem__(hp, b'H'))
            elif hidden == 'listed_hidden_missing':
                post.append(lambda t: t.files.pop(hp))
        elif hidden.startswith('listed_in_hidden_dir'):
            files[hp + '/f'] = b'h'
            listed.append(('F', 'DATA', hp + '/f', ('SHA1',)))
            if hidden.endswith('missing'):
                post.append(lambda t: t.files.pop(hp + '/f'))
        specs = [MSpec(TOP, top_items)]
        if where == 'nested_from_sub':
            top_items.append(('M', 'd/Manifest', ('SHA1',)))
            specs.append(MSpec('d/Manifest', sub_items))
        # fix relative paths of F items that live in the sub-Manifest: handled by MSpec.dir
        sc = Scenario(files, specs)
        sc.post = post
        tree = sc.build()
        desc = (spec, inside, hidden, vpath)
        case = {'tree': tree.to_json(), 'path': vpath, 'desc': repr(desc),
                'single_paths': sorted(set(tree.files) | {ign, look, look + '/z', j('nonexistent'), ign + '/deep/er'})}
        vs, v = check_case(case, scratch, stats)
        stats.case(desc, nontrivial=v.kind != 'dontcare')
        if len(stats.samples) < 3:
            stats.sample({'desc': repr(desc), 'verdict': v.kind})
        for x in vs:
            stats.violation(x['sig'], x['case'], x['message'])


# ---- F5: directory symlinks, files behind them listed or not

def f5_shards(tier, seed):
    return [('F5',)]


def f5_run(spec, tier, seed, scratch, stats):
    for listed_via_link, extra_in_target, link_kind, alter in itertools.product(
            (True, False), (False, True), ('dir', 'file_same', 'file_other', 'broken'), (False, True)):
        files = {'d/f': b'one', 'g': b'two'}
        items = [('F', 'DATA', 'd/f', ('SHA1',)), ('F', 'DATA', 'g', ('SHA1',))]
        links = {}
        if link_kind == 'dir':
            links['l'] = 'd'
            if listed_via_link:
                items.append(('E', rm.file_entry('DATA', 'l/f', b'one', ('SHA1',))))
        elif link_kind == 'file_same':
            links['l'] = 'g'
            if listed_via_link:
                items.append(('E', rm.file_entry('DATA', 'l', b'two', ('SHA1',))))
        elif link_kind == 'file_other':
            links['l'] = 'd/f'
            if listed_via_link:
                items.append(('E', rm.file_entry('DATA', 'l', b'two', ('SHA1',))))
        else:
            links['l'] = 'nowhere'
            if listed_via_link:
                items.append(('E', rm.file_entry('DATA', 'l', b'two', ('SHA1',))))
        post = []
        if extra_in_target:
            post.append(lambda t: t.files.__setitem__('d/extra', b'e'))
        if alter:
            post.append(lambda t: t.files.__setitem__('d/f', b'ONE'))
        sc = Scenario(files, [MSpec(TOP, items)], links=links)
        sc.post = post
        tree = sc.build()
        desc = (spec, listed_via_link, extra_in_target, link_kind, alter)
        case = {'tree': tree.to_json(), 'path': '', 'desc': repr(desc)}
        vs, v = check_case(case, scratch, stats)
        stats.case(desc, nontrivial=v.kind != 'dontcare')
        for x in vs:
            stats.violation(x['sig'], x['case'], x['message'])


# ---- F6: last_mtime

def f6_shards(tier, seed):
    return [('F6',)]


def f6_run(spec, tier, seed, scratch, stats):
    m = MT
    # sub-second values as well: the shortcut applies iff st_mtime <= last_mtime EXACTLY (a file changed later within
    # the same whole second as last_mtime is newer); .25/.5/.75 are exact in binary floating point
    lms = (None, m - 1, m, m + 0.25, m + 0.5, m + 0.75, m + 1)
    for mf, lm, change, content, hs, nfiles in itertools.product(
            (m, m + 0.25, m + 0.75), lms, ('none', 'same', 'other', 'delete'), (b'', b'abc'),
            (('SHA1',), ()), (1, 2)):
        if mf != m and (nfiles == 2 or not hs) and tier == 'quick':
            continue
        files = {'f': content}
        if nfiles == 2:
            files['g'] = b'second'
        items = [('F', 'DATA', p, hs) for p in sorted(files)]
        post = []
        if change == 'same':
            oc = other_content(content, True)
            if oc is None:
                continue
            post.append(lambda t, oc=oc: t.files.__setitem__('f', oc))
        elif change == 'other':
            post.append(lambda t: t.files.__setitem__('f', content + b'x'))
        elif change == 'delete':
            post.append(lambda t: t.files.pop('f'))
        for second_newer in ((False, True) if nfiles == 2 else (False,)):
            sc = Scenario(files, [MSpec(TOP, items)])
            p2 = list(post)
            if mf != m and change != 'delete':
                p2.append(lambda t, mf=mf: t.mtimes.__setitem__('f', mf))
            if second_newer:
                p2.append(lambda t: (t.files.__setitem__('g', b'SECOND'), t.mtimes.__setitem__('g', m + 5)))
            sc.post = p2
            tree = sc.build()
            desc = (spec, mf - m, lm, change, content, hs, nfiles, second_newer)
            case = {'tree': tree.to_json(), 'path': '', 'last_mtime': lm, 'desc': repr(desc)}
            vs, v = check_case(case, scratch, stats)
            stats.case(desc, nontrivial=v.kind != 'dontcare' and (lm is not None))
            for x in vs:
                stats.violation(x['sig'], x['case'], x['message'])


# ---- F7: sub-path verification with string-prefix look-alike siblings

def f7_shards(tier, seed):
    return [('F7', ma, mab) for ma in (0, 1) for mab in (0, 1)]


def f7_run(spec, tier, seed, scratch, stats):
    _f, ma, mab = spec
    files = {'a/x': b'1', 'ab/y': b'22', 'ab/a/z': b'333', 'k': b'4'}
    hashes = ('SHA1',)

    def make():
        top = [('F', 'DATA', 'k', hashes)]
        specs = [MSpec(TOP, top)]
        if ma:
            specs.append(MSpec('a/Manifest', [('F', 'DATA', 'a/x', hashes)]))
            top.append(('M', 'a/Manifest', hashes))
        else:
            top.append(('F', 'DATA', 'a/x', hashes))
        if mab:
            specs.append(MSpec('ab/Manifest', [('F', 'DATA', 'ab/y', hashes), ('F', 'DATA', 'ab/a/z', hashes)]))
            top.append(('M', 'ab/Manifest', hashes))
        else:
            top += [('F', 'DATA', 'ab/y', hashes), ('F', 'DATA', 'ab/a/z', hashes)]
        return Scenario(files, specs)
    run_mutations(make, 1 if tier == 'quick' else 2, spec, ['', 'a', 'ab', 'ab/a'], stats, scratch,
                  single=True)


# ---- F8: duplicate MANIFEST entries for one real sub-Manifest (different Manifests / same Manifest)

def f8_shards(tier, seed):
    return [('F8', placement) for placement in ('top+mid', 'mid+top_order', 'same_manifest', 'two_in_dir')]


def f8_run(spec, tier, seed, scratch, stats):
    _f, placement = spec
    files = {'a/b/x': b'payload', 'a/y': b'why', 'z': b'zed'}
    leaf = Tree(files)
    render_layout(leaf, [MSpec('a/b/Manifest', [('F', 'DATA', 'a/b/x', ('SHA1',))])])
    good = leaf.files['a/b/Manifest']
    bad = good.replace(b'DATA', b'MISC')          # same size, different content
    hsets = [(('MD5',), ('SHA512',)), (('MD5',), ('MD5',)), (('MD5', 'SHA1'), ('SHA1', 'SHA512')), ((), ('SHA1',)),
             (('SHA1',), ())]
    for (h1, h2), ok1, ok2, vpath, tag1 in itertools.product(hsets, (True, False), (True, False), ('', 'a', 'a/b'),
                                                             ('MANIFEST', 'DATA')):
        # tag1: the FIRST of the two entries is a MANIFEST entry or an ordinary DATA entry that happens to name the
        # Manifest file (a file entry like any other: its checksums count, whoever loaded the file as a Manifest)
        def ent(rel, hs, ok, tag='MANIFEST'):
            return ('E', rm.file_entry(tag, rel, good if ok else bad, hs))
        if placement in ('top+mid', 'mid+top_order'):
            top = [('F', 'DATA', 'z', ('SHA1',)), ('M', 'a/Manifest', ('SHA1',))]
            mid = [('F', 'DATA', 'a/y', ('SHA1',)), ent('b/Manifest', h2, ok2)]
            e1 = ent('a/b/Manifest', h1, ok1, tag1)
            top = ([e1] + top) if placement == 'top+mid' else (top + [e1])
            specs = [MSpec(TOP, top), MSpec('a/Manifest', mid)]
        elif placement == 'same_manifest':
            top = [('F', 'DATA', 'z', ('SHA1',)), ('F', 'DATA', 'a/y', ('SHA1',)),
                   ent('a/b/Manifest', h1, ok1, tag1), ent('a/b/Manifest', h2, ok2)]
            specs = [MSpec(TOP, top)]
        else:
            top = [('F', 'DATA', 'z', ('SHA1',)), ('F', 'DATA', 'a/y', ('SHA1',)),
                   ent('a/b/Manifest', h1, ok1, tag1), ('M', 'Manifest.files', ('SHA1',))]
            specs = [MSpec(TOP, top), MSpec('Manifest.files', [ent('a/b/Manifest', h2, ok2)])]
        sc = Scenario(files, specs, raw={'a/b/Manifest': good})
        tree = sc.build()
        desc = (spec, h1, h2, ok1, ok2, vpath, tag1)
        case = {'tree': tree.to_json(), 'path': vpath, 'desc': repr(desc)}
        vs, v = check_case(case, scratch, stats)
        stats.case(desc, nontrivial=v.kind != 'dontcare')
        if len(stats.samples) < 1 and not ok2:
            stats.sample({'desc': repr(desc), 'verdict': v.kind})
        for x in vs:
            stats.violation(x['sig'], x['case'], x['message'])


# ---- F9: the CLI given several paths (sub-directories of one tree, separate trees, both)

def f9_shards(tier, seed):
    return [('F9', k) for k in ((2, 3) if tier == 'quick' else (2, 3, 4))]


def f9_run(spec, tier, seed, scratch, stats):
    _f, k = spec
    hs = ('SHA1',)
    dirs = ['a', 'b', 'c', 'd'][:k]

    def one_tree(bad):
        files = {f'{d}/f': d.encode() * 3 for d in dirs}
        files['top'] = b'top'
        sc = Scenario(files, [MSpec(TOP, [('F', 'DATA', p, hs) for p in sorted(files)])])
        post = []
        for d, how in bad.items():
            if how == 'alter':
                post.append(lambda t, d=d: t.files.__setitem__(f'{d}/f', b'XXX'))
            elif how == 'delete':
                post.append(lambda t, d=d: (t.files.pop(f'{d}/f'), t.dirs.add(d)))
            elif how == 'stray':
                post.append(lambda t, d=d: t.files.__setitem__(f'{d}/stray', b's'))
        sc.post = post
        return sc.build()

    hows = ('alter', 'delete', 'stray')
    for layout in ('one_tree', 'separate_trees'):
        for mask in itertools.product((0, 1), repeat=k):
            for hi, how in enumerate(hows):
                if not any(mask) and hi:
                    continue
                if tier == 'quick' and k == 3 and how != 'alter':
                    continue
                bad = {d: how for d, b in zip(dirs, mask) if b}
                if layout == 'one_tree':
                    trees = [one_tree(bad).to_json()]
                    multi = [(0, d) for d in dirs]
                else:
                    trees = [one_tree({d: h for d, h in bad.items() if d == dd}).to_json() for dd in dirs]
                    multi = [(i, '') for i in range(k)]
                variants = [('direct', multi)]
                if layout == 'one_tree' and how == 'alter':
                    # each path given through a symlink outside the tree, named like ANOTHER directory of the tree
                    # (the next one, cyclically) / with a name no directory has
                    variants.append(('link_named_like_sibling',
                                     [(ti, d, dirs[(dirs.index(d) + 1) % k]) for ti, d in multi]))
                    variants.append(('link_other_name', [(ti, d, 'lnk') for ti, d in multi]))
                    for ti, d in multi:         # and each of them alone
                        variants.append((f'one_link_named_like_sibling:{d}', [(ti, d, dirs[(dirs.index(d) + 1) % k])]))
                for (vname, multi_v), flags in itertools.product(variants, ((), ('-k',))):
                    desc = (spec, layout, mask, how, flags, vname)
                    case = {'trees': trees, 'multi': [list(x) for x in multi_v], 'flags': list(flags), 'desc': repr(desc)}
                    if vname != 'direct':
                        stats.counters['multi_path_via_symlink'] += 1
                    vs, kinds = check_case(case, scratch, stats)
                    stats.case(desc, nontrivial=any(mask))
                    stats.counters['multi_path_cli_cases'] += 1
                    if any(mask) and not mask[-1]:
                        stats.counters['multi_path_bad_not_last'] += 1
                    for x in vs:
                        stats.violation(x['sig'], x['case'], x['message'])


FAMILIES = {
    'F1': (f1_shards, f1_run), 'F2': (f2_shards, f2_run), 'F2sib': (None, f2_run),
    'F3': (f3_shards, f3_run), 'F3b': (f3b_shards, f3b_run), 'F4': (f4_shards, f4_run), 'F5': (f5_shards, f5_run),
    'F6': (f6_shards, f6_run), 'F7': (f7_shards, f7_run), 'F8': (f8_shards, f8_run), 'F9': (f9_shards, f9_run),
}


def shards(tier, seed):
    out = []
    for name, (sh, _r) in FAMILIES.items():
        if sh:
            out.extend(sh(tier, seed))
    # biggest first for better load balance
    out.sort(key=lambda s: (s[0] != 'F1', s[0] != 'F3'))
    return out


def run_shard(spec, tier, seed, scratch):
    stats = Stats()
    FAMILIES[spec[0]][1](spec, tier, seed, scratch, stats)
    stats.counters['family_' + spec[0]] += 1
    return stats


def finish(total, tier):
    errs = []
    kinds = {k.split('/')[0] for k in total.outcomes}
    for need in ('match', 'mismatch', 'incompatible', 'soft'):
        if need not in kinds:
            errs.append(f'vacuity: no case with reference verdict {need!r}')
    if total.compared < total.evaluations // 3:
        errs.append('vacuity: most cases are DONT_CARE')
    return errs
