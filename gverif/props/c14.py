"""C14 — a signed tree stays signed; sub-Manifests are never signed.

The full product  sign option x original top-level state x key id x signer x
layout x entry contents x kind of save x interface  is run through the real
update + save code (library and CLI) with two OpenPGP back ends:

* scripted: a fake ``subprocess`` installed into ``gemato.openpgp`` so that the
  real ``clear_sign_file`` / ``verify_file`` / ``_spawn_gpg`` code runs against a
  deterministic toy clear-sign scheme (envelope per RFC 4880 section 7, "signature"
  = SHA-256 over key and canonical text) that records argv and the exact stdin,
  can exit non-zero and can be "not installed" (Popen raises FileNotFoundError);
* real: GnuPG in isolated homes (one with two secret keys, one with the public
  key only so that verification works and signing fails).

Every run is judged against the statement of C14 (see ``judge``).

Signing failures (part F and every failing-signer point of parts M and W): the signer is made to fail in every way the
back ends offer (exit status, exit status after partial output, TERMINATED BY A SIGNAL - Popen.wait() negative - with
empty or partial output, key id without secret key, gpg not installed for the signing call / for every call; real
GnuPG: public key only, unknown key id).  Besides "the failure is reported" two
more things are judged: the STATE LEFT ON DISK (``state_after_failure``: the top-level Manifest is still byte-identical,
or at least still a verifying clear-signed Manifest if it was signed - never an empty or plain file written by the
failed save) and the FOLLOW-UP (``run_followup``: the next ordinary update+save with a working signer - sign option
unset for an originally signed tree - is run on what was left behind and judged by the same oracle: it must produce a
signed top-level Manifest again).

Histories (part H): two update+save runs ONE AFTER THE OTHER IN ONE PROCESS, on two different trees with a loader / CLI
invocation each, for every ordered pair of key selections {default key, explicit key id A, explicit key id B}^2; every
save is judged by the same oracle as a single run (signed by exactly the requested key and by no other: the signer is
told to use no key other than the requested one, the signature is made by it, one valid signature).

Process isolation: a verdict must depend on its case alone.  Thorough tier and replay(): every case runs in a pristine
process (forked from a helper that never executes a gemato operation).  Quick tier: a case runs in the worker after the
cases that worker ran before; a result entirely in order is accepted, anything else is discarded and the case re-run in
a pristine process whose verdict counts (a difference between the two is reported by finish()).
"""

import atexit
import base64
import datetime as _dt
import errno
import gc
import hashlib
import importlib.util
import io
import itertools
import os
import pickle
import re
import signal
import subprocess
import tempfile
import traceback
import types

import gemato.cli
import gemato.openpgp
from gemato.manifest import ManifestFile
from gemato.openpgp import GNUPG, GNUPGCONF, IsolatedGPGEnvironment, SystemGPGEnvironment

from gverif import gem, refverify, seams
from gverif import refmanifest as rm
from gverif.common import fresh_root
from gverif.evidence import Stats
from gverif.treemodel import MSpec, Tree, comp_of, compress, decompress, render_layout

PID = 'C14'
LEVEL = 'model_checking'
RULE = ('part M, full product: sign option {unset, on, off} x top-level Manifest originally {clear-signed and '
        'verified on load, unsigned, clear-signed but loaded with verification off (library only), signed by a '
        'preceding gemato run} x key id {explicit, default} x signer {works, exits non-zero, gpg missing for every '
        'call, gpg missing for signing only, scripted only: terminated by a signal (negative wait() status) after '
        'partial output} x layout {flat, nested 3 levels, nested with gz sub-Manifest, '
        'same-directory sibling Manifest; thorough adds bz2 and xz sub-Manifests} x entry contents {plain names, '
        'names needing escapes (space, backslash, tab, non-ASCII), names that are armor lines / start with a dash} x '
        '{edit data files then update, forced save without change} x interface {library, CLI} (thorough: x 3 '
        'hash-set/content variants); part W: (top-level file name, compress watermark) in {Manifest, Manifest.gz '
        '(library only)} x {none, 0, 10^6} minus the part-M point x sign option x {signed, unsigned} x signer '
        '{works, exits non-zero} x {flat, nested, nested_gz} x both kinds of save x interface (thorough: x key id x '
        'contents); part F (signing failures): (failing signer, own entries of the top-level Manifest) in {exits '
        'non-zero, exits non-zero after partial output, terminated by a signal with empty stdout (SIGKILL), terminated '
        'by a signal after partial output (SIGTERM), key id without secret key, gpg missing for signing only, gpg '
        'missing for every call; real GnuPG through the CLI also: -K <file with the public key only>, i.e. an isolated '
        'home built by gemato itself} x {none, DIST + IGNORE of an existing directory + TIMESTAMP} minus the part-M points '
        '(old signer classes x none) x (original state, sign option) in {signed, signed by a preceding gemato run} x '
        '{unset, on} + (unsigned, on) x top-level name {Manifest, Manifest.gz (library only)} x {flat, nested_gz} x '
        'both kinds of save x interface (quick: without "signed by a preceding gemato run"; thorough: x all layouts x '
        'all contents x key id); in every case of M, W, F in which a signature is required and the signer fails, '
        'the state left on disk is judged and ONE follow-up update+save (same interface, same kind of change once '
        'more, working signer, sign option unset if the top-level Manifest was signed originally, else on) is '
        'executed and judged as well (quick: in part M only for the contents class "names needing escapes", the '
        'class parts W and F use); part H (histories of TWO update+save runs in one process, each on a tree and a '
        'loader / CLI invocation of its own, both judged like a single run): key selection of save 1 x of save 2 in '
        '{default key, explicit key id A, explicit key id B}^2 (scripted: A, B = two non-default keys; real GnuPG: A = '
        'second secret key, B = the default key named by its fingerprint) x interface of save 1 x of save 2 in {library, '
        'CLI}^2 x (original state, sign option) of save 1 x of save 2 in {(signed, unset), (unsigned, on)}^2 x both '
        'back ends; save 1 on the tree (flat, plain names), save 2 on (nested with gz sub-Manifest, names needing '
        'escapes), both "edit then update", working signer (thorough: x signer of save 1 {works, exits non-zero, '
        'scripted: terminated by a signal after partial output} x layout of save 2 {flat, nested_gz, sibling} x kind of '
        'save {edit, forced}^2); bound: histories of length 2 (length 3 where save 1 fails: its follow-up run); '
        'back end "scripted" (fake subprocess in gemato.openpgp) takes everything but the '
        '-K class, back end "real" '
        '(GnuPG, isolated homes) the sub-product signer in {works, secret key missing; part F: secret key missing, '
        'unknown key id}; a state is one '
        'configuration tuple, a transition one update+save execution (plus the verifying re-load, plus the follow-up '
        'update+save and its re-load); non-trivial = '
        'the reference gives a definite verdict (not DONT_CARE) for the configuration')
ASSUMPTIONS = [
    'oracle written from the C14 statement: signed envelope iff (option on) or (option unset and the top-level '
    'Manifest was loaded with a verified signature); envelope syntax judged by an own RFC 4880 section 7 parser, '
    'entries by gverif/refmanifest.py, "the new entries" by gverif/refverify.py on the armor-stripped result',
    'scripted back end: a toy signature scheme behind the real clear_sign_file/verify_file/_spawn_gpg code; it '
    'shows WHAT is signed, with which argv, and that the written envelope is self-consistent; real '
    'cryptographic validity is covered only by the real-gpg sub-product (GnuPG 2.2 trusted, --decrypt output '
    '= authenticated cleartext)',
    'top-level Manifest originally signed but loaded with verify_openpgp=False and sign option unset is '
    'DONT_CARE; gpg missing for every call with an originally signed Manifest is DONT_CARE (the load itself '
    'fails); a gemato exception in a run that needs no signature or has a working signer is DONT_CARE '
    '(C03/C10 judge completion) and reported by the vacuity self-check',
    'state after a signing failure, from "a signed tree stays signed" and "a signing failure is reported rather '
    'than silently producing an unsigned Manifest": the file under the original top-level name byte-identical = in '
    'order; originally signed: a changed file must still be one clear-signed message that verifies (in order if it '
    'keeps the DIST/IGNORE entries and the TIMESTAMP of the original, else DONT_CARE - C10 judges what an update may '
    'touch), while empty / plain / absent / malformed / non-verifying is a violation; originally unsigned with the '
    'sign option on: a changed file that is plain or empty is a violation (an unsigned Manifest was written where '
    'a signed one was required), anything else DONT_CARE; an intact top-level Manifest with a second top-level '
    'file left beside it (aborted re-compression) is DONT_CARE',
    'follow-up after a signing failure: judged by the very same oracle as any other run with want = signed; a '
    'follow-up that stops with an error after a part-W run (compress watermark: the failed save had already '
    'renamed sub-Manifests) is DONT_CARE - nothing unsigned is written; sub-Manifests that the failed save had '
    'already rewritten are not judged (C14 is about the top-level signature)',
    'a signer terminated by a signal is a failing signer like one that exits non-zero (the statement says "signing '
    'failure", not "exit status"): same oracle, same state-on-disk and follow-up judgement; modelled by the scripted '
    'back end only (Popen.wait() = -SIGKILL with empty stdout, -SIGTERM with half an envelope on stdout, stderr '
    'empty); the real GnuPG binary is not killed',
    'signed "with the signing key" (part H and every other signed save): the signer must be told to use exactly the '
    'requested key id and no other (set of --local-user values of the recorded argv = {requested id}, empty for the '
    'default key; GnuPG makes one signature per distinct key named), the signature must be made by that key and '
    'gpg --decrypt must report exactly one valid signature',
    'process state: a verdict depends on the case alone - every case of the thorough tier and every replay runs in a '
    'pristine process (forked from a helper that was itself forked before any gemato operation of a case); in the '
    'quick tier a case first runs in the worker after that worker\'s earlier cases, a result that is entirely in '
    'order is accepted and anything else is discarded and re-run in a pristine process, whose verdict is the one '
    'reported; results that differ between the two are reported as a harness error line; effects of earlier gemato '
    'operations in the same process are explored deliberately only within part H (two saves) and the follow-up runs',
    'gemato.cli sees a frozen clock (it refreshes an existing TIMESTAMP entry with the current time); a signer that '
    'exits 0 but writes garbage is not modelled (a lying gpg is outside the trust base)',
    'one small tree per contents class (6-7 files, nesting 2), one hash set per seed and variant; TIMESTAMP / DIST / '
    'IGNORE entries only in part F, '
    'no profile other than default; PGPyEnvironment (cannot sign) is not driven, the CLI -K switch only in part F '
    '(real GnuPG, public key file)',
]

TOP = 'Manifest'
BEGIN_SIGNED = '-----BEGIN PGP SIGNED MESSAGE-----'
BEGIN_SIG = '-----BEGIN PGP SIGNATURE-----'
END_SIG = '-----END PGP SIGNATURE-----'

SIGNS = (None, True, False)
ORIGS = ('signed', 'unsigned', 'signed_noverify')
KEYIDS = (False, True)                      # explicit key id given?
SIGNERS_SCRIPTED = ('ok', 'fail', 'missing', 'missing_sign', 'killed_partial')
SIGNERS_REAL = ('ok', 'fail')
# part F (signing failures): every way the signer can be made to fail
F_SIGNERS_SCRIPTED = ('fail', 'fail_partial', 'badkey', 'missing_sign', 'missing', 'killed', 'killed_partial')
F_SIGNERS_REAL = ('fail', 'badkey')
F_SIGNERS_REAL_CLI = ('keyfile',)           # CLI only: -K <file with the public key alone> (isolated home made by gemato)
OLD_FAIL_SIGNERS = ('fail', 'missing', 'missing_sign', 'killed_partial')    # the failing signers of part M
KILL_SIGNALS = {'killed': signal.SIGKILL, 'killed_partial': signal.SIGTERM}   # signer terminated by a signal
EXTRAS = ('none', 'own')                    # top-level Manifest carries DIST + IGNORE + TIMESTAMP entries of its own?
F_PAIRS = (('signed', None), ('signed', True), ('signed_by_gemato', None), ('signed_by_gemato', True),
           ('unsigned', True))              # (original state, sign option): exactly those that require a signature
F_TOPS_LIB = ('Manifest', 'Manifest.gz')
F_TOPS_CLI = ('Manifest',)                  # the CLI only finds an uncompressed top-level Manifest
LAYOUTS = ('flat', 'nested', 'nested_gz', 'sibling')
CONTENTS = ('plain', 'escapes', 'dashy')
CHANGES = ('edit', 'forced')
IFACES = ('lib', 'cli')
SIGN_NAME = {None: 'unset', True: 'on', False: 'off'}

HASHSETS = [('SHA1',), ('MD5', 'SHA256'), ('BLAKE2B', 'SHA512')]
BLOBS = [b'zero', b'one', b'', b'two!', b'33', b'\xff\x00bin', b'seven\n', b'8']

NAMES = {
    'plain': {'d': 'd', 'top': ['a', 'q.x'], 'sub': ['f1', 'g.txt'], 'deep': ['f2', 'h']},
    'escapes': {'d': 'd é', 'top': ['b c', 'b\\', 'ü'], 'sub': ['x y', 'ä\\'], 'deep': ['z\tz', 'Ж']},
    'dashy': {'d': 'd', 'top': [BEGIN_SIGNED, '- x', 'a'], 'sub': [BEGIN_SIG, '- y'], 'deep': [END_SIG, '-']},
}

# scripted key material
FAKE_DEFAULT = 'D0' * 20
FAKE_OTHER = '0123456789ABCDEF0123456789ABCDEF01234567'
FAKE_THIRD = 'FEDCBA9876543210FEDCBA9876543210FEDCBA98'
FAKE_KEYS = (FAKE_DEFAULT, FAKE_OTHER, FAKE_THIRD)
UNKNOWN_KEY = 'DEADBEEF' * 5                # a key id no back end has a secret key for (signer class 'badkey')

OWN_DIST = 'dist-1.tar.gz'
OWN_DIST_DATA = b'hello'
OWN_IGNORE = 'ign'
OWN_TIMESTAMP = '2020-01-02T03:04:05Z'
FROZEN_NOW = (2021, 2, 3, 4, 5, 6)          # what gemato.cli sees as "now" (it refreshes an existing TIMESTAMP)


# ====================================================================== reference envelope syntax

_HDR = re.compile(r'^[A-Za-z][A-Za-z0-9-]*: .*$')


def split_envelope(text):
    """RFC 4880 section 7 reading of a whole file.

    -> ('plain', text)                      no armor line at all
       ('signed', cleartext, info)          exactly one well-formed cleartext-signed message, nothing else
       ('other', why)
    """
    if text == '':
        return ('plain', '')
    if not text.endswith('\n'):
        return ('other', 'no final newline')
    lines = text[:-1].split('\n')
    if any('\r' in ln for ln in lines):
        return ('other', 'carriage return')
    if lines[0] != BEGIN_SIGNED:
        for ln in lines:
            if ln.startswith('-----'):
                return ('other', 'armor-like line in a file that does not start with the signed-message header')
        return ('plain', text)
    i = 1
    hashes = []
    while i < len(lines) and lines[i] != '':
        if not _HDR.match(lines[i]):
            return ('other', f'malformed armor header {lines[i]!r}')
        k, v = lines[i].split(': ', 1)
        if k != 'Hash':
            return ('other', f'armor header {k!r} not allowed in a cleartext signature')
        hashes.append(v)
        i += 1
    if i >= len(lines):
        return ('other', 'no blank line after the armor headers')
    i += 1
    body = []
    while i < len(lines) and lines[i] != BEGIN_SIG:
        ln = lines[i]
        if ln.startswith('- '):
            ln = ln[2:]
        elif ln.startswith('-'):
            return ('other', f'line starting with a dash is not dash-escaped: {ln!r}')
        body.append(ln)
        i += 1
    if i >= len(lines):
        return ('other', 'no signature block')
    i += 1
    sig = []
    while i < len(lines) and lines[i] != END_SIG:
        if lines[i].startswith('-----'):
            return ('other', 'armor line inside the signature block')
        sig.append(lines[i])
        i += 1
    if i >= len(lines):
        return ('other', 'signature block not terminated')
    rest = lines[i + 1:]
    if any(r.strip() for r in rest):
        return ('other', 'data after the signature block')
    clear = ''.join(b + '\n' for b in body)
    return ('signed', clear, {'hash': hashes, 'sig': sig})


def armor_lines(text):
    """Lines of a (sub-)Manifest that are OpenPGP armor header lines."""
    return [ln for ln in text.split('\n') if ln.startswith('-----BEGIN PGP') or ln.startswith('-----END PGP')]


# ====================================================================== scripted gpg

def _canon(text):
    lines = text.split('\n')
    if lines and lines[-1] == '':
        lines = lines[:-1]
    return '\r\n'.join(ln.rstrip(' \t') for ln in lines)


def _fake_mac(fpr, text):
    return hashlib.sha256((fpr + '\0' + _canon(text)).encode('utf8')).hexdigest()


def fake_sign(text, fpr):
    out = [BEGIN_SIGNED, 'Hash: SHA256', '']
    body = text.split('\n')
    if body and body[-1] == '':
        body = body[:-1]
    for ln in body:
        out.append('- ' + ln if (ln.startswith('-') or ln.startswith('From ')) else ln)
    blob = base64.b64encode(f'c14-fake-signature:{fpr}:{_fake_mac(fpr, text)}'.encode('ascii')).decode('ascii')
    out += [BEGIN_SIG, ''] + [blob[k:k + 64] for k in range(0, len(blob), 64)] + [END_SIG]
    return ''.join(ln + '\n' for ln in out)


def fake_verify(text):
    """-> fingerprint of the (known) key whose toy signature matches, or None."""
    r = split_envelope(text)
    if r[0] != 'signed':
        return None
    try:
        tag, fpr, mac = base64.b64decode(''.join(r[2]['sig']).encode('ascii')).decode('ascii').split(':')
    except Exception:                       # noqa: BLE001 - any malformed block is a bad signature
        return None
    if tag != 'c14-fake-signature' or fpr not in FAKE_KEYS or mac != _fake_mac(fpr, r[1]):
        return None
    return fpr


class _FakeProc(seams.PopenLike):
    def __init__(self, owner, argv):
        self.owner = owner
        self.argv = argv
        self.returncode = None

    def communicate(self, input=None, timeout=None):          # noqa: A002 - subprocess API
        o = self.owner
        data = input if isinstance(input, (bytes, bytearray)) else (input or '').encode('utf8')
        data = bytes(data)
        argv = self.argv
        out, err, rc = b'', b'', 0
        if '--clearsign' in argv:
            o.signs.append((list(argv), data))
            key = FAKE_DEFAULT
            if '--local-user' in argv:
                key = argv[argv.index('--local-user') + 1]
            if o.mode == 'fail':
                rc, err = 2, b'gpg: no default secret key: No secret key\ngpg: [stdin]: clear-sign failed: No secret key\n'
            elif o.mode == 'fail_partial':
                # part of an envelope reaches stdout before the signer gives up
                try:
                    whole = fake_sign(data.decode('utf8'), FAKE_DEFAULT).encode('utf8')
                except UnicodeDecodeError:
                    whole = b''
                out = whole[:max(len(BEGIN_SIGNED) + 20, len(whole) // 2)]
                rc = 2
                err = b'gpg: signing failed: Operation cancelled\ngpg: [stdin]: clear-sign failed: Operation cancelled\n'
            elif o.mode in KILL_SIGNALS:
                # the signer is terminated by a signal: Popen.wait() gives -signum; nothing / part of an envelope
                # has reached stdout, stderr is empty
                rc = -int(KILL_SIGNALS[o.mode])
                if o.mode == 'killed_partial':
                    try:
                        whole = fake_sign(data.decode('utf8'), key if key in FAKE_KEYS else FAKE_DEFAULT).encode('utf8')
                    except UnicodeDecodeError:
                        whole = b''
                    out = whole[:max(len(BEGIN_SIGNED) + 20, len(whole) // 2)]
            elif key not in FAKE_KEYS:
                rc, err = 2, b'gpg: skipped "' + key.encode('utf8') + b'": No secret key\n'
            else:
                try:
                    out = fake_sign(data.decode('utf8'), key).encode('utf8')
                except UnicodeDecodeError:
                    rc, err = 2, b'gpg: invalid UTF-8 on stdin\n'
        elif '--verify' in argv:
            o.verifies.append(data)
            fpr = None
            try:
                fpr = fake_verify(data.decode('utf8'))
            except UnicodeDecodeError:
                pass
            if fpr is None:
                rc = 1
                out = b'[GNUPG:] NEWSIG\n[GNUPG:] BADSIG 0000000000000000 c14 fake key\n'
                err = b'gpg: BAD signature\n'
            else:
                f = fpr.encode('ascii')
                out = (b'[GNUPG:] NEWSIG\n'
                       b'[GNUPG:] GOODSIG ' + f[-16:] + b' c14 fake key <c14@example.com>\n'
                       b'[GNUPG:] VALIDSIG ' + f + b' 2020-01-01 1577836800 0 4 0 1 8 01 ' + f + b'\n'
                       b'[GNUPG:] TRUST_ULTIMATE 0 direct\n')
        else:
            o.unknown.append(list(argv))
            rc, err = 2, b'c14 fake gpg: unsupported invocation\n'
        self.returncode = rc
        return out, err

    def wait(self, timeout=None):
        return self.returncode

    def poll(self):
        return self.returncode


class FakeGpg:
    """Stand-in for the ``subprocess`` module as seen by gemato.openpgp."""

    def __init__(self, mode):
        self.mode = mode
        self.signs = []         # (argv, stdin bytes) of every --clearsign call
        self.verifies = []      # stdin bytes of every --verify call
        self.unknown = []
        self.spawn_failures = 0
        self.sign_attempts = 0  # --clearsign invocations incl. those for which Popen raised

    def Popen(self, argv, stdin=None, stdout=None, stderr=None, env=None, **_kw):   # noqa: N802
        argv = list(argv)
        if '--clearsign' in argv:
            self.sign_attempts += 1
        if self.mode == 'missing' or (self.mode == 'missing_sign' and '--clearsign' in argv):
            self.spawn_failures += 1
            raise FileNotFoundError(errno.ENOENT, 'No such file or directory', argv[0])
        return _FakeProc(self, argv)

    def module(self):
        return types.SimpleNamespace(Popen=self.Popen, PIPE=subprocess.PIPE, DEVNULL=subprocess.DEVNULL,
                                     STDOUT=subprocess.STDOUT)


class _RecProc(seams.PopenLike):
    def __init__(self, owner, argv, proc):
        self.owner = owner
        self.argv = argv
        self.proc = proc

    def communicate(self, input=None, timeout=None):          # noqa: A002 - subprocess API
        if '--clearsign' in self.argv:
            self.owner.signs.append((list(self.argv), bytes(input or b'')))
        return self.proc.communicate(input, timeout)

    def __exit__(self, *a):
        return self.proc.__exit__(*a)

    def wait(self, timeout=None):
        return self.proc.wait(timeout)

    def poll(self):
        return self.proc.poll()

    @property
    def returncode(self):
        return self.proc.returncode


class RecGpg(FakeGpg):
    """Pass-through to the real subprocess module that records --clearsign calls."""

    def __init__(self):
        super().__init__('real')

    def Popen(self, argv, **kw):                # noqa: N802
        argv = list(argv)
        if '--clearsign' in argv:
            self.sign_attempts += 1
        return _RecProc(self, argv, subprocess.Popen(argv, **kw))


class _Installed:
    """Context manager: gemato.openpgp.subprocess := fake module."""

    def __init__(self, fake):
        self.fake = fake

    def __enter__(self):
        self.old = gemato.openpgp.subprocess
        gemato.openpgp.subprocess = self.fake.module()
        return self.fake

    def __exit__(self, *a):
        gemato.openpgp.subprocess = self.old
        return False


# ====================================================================== real gpg homes

H = {'homes': None, 'parent': None}


def _keydata():
    if H.get('keydata') is not None:
        return H['keydata']
    spec = importlib.util.spec_from_file_location('_c14_keydata', '/repo/tests/keydata.py')
    kd = importlib.util.module_from_spec(spec)
    spec.loader.exec_module(kd)
    H['keydata'] = kd
    return kd


def _gpg_env(home):
    env = dict(os.environ)
    env['GNUPGHOME'] = home
    env['TZ'] = 'UTC'
    return env


def _kill_agents(home):
    """gpgconf --kill all for this home, then make sure by looking for daemons that
    were started with exactly this --homedir."""
    if os.path.isdir(home):
        try:
            subprocess.run([GNUPGCONF, '--kill', 'all'], env=_gpg_env(home), capture_output=True, timeout=30)
        except Exception:               # noqa: BLE001 - best effort cleanup
            pass
    needle = home.encode('utf8', 'surrogateescape')
    try:
        pids = [p for p in os.listdir('/proc') if p.isdigit()]
    except OSError:
        return
    for p in pids:
        try:
            with open(f'/proc/{p}/cmdline', 'rb') as f:
                cmd = f.read().split(b'\0')
        except OSError:
            continue
        if cmd and os.path.basename(cmd[0]) in (b'gpg-agent', b'dirmngr', b'scdaemon', b'keyboxd') and needle in cmd:
            try:
                os.kill(int(p), signal.SIGTERM)
            except OSError:
                pass


def _iso_env(under):
    old = tempfile.tempdir
    tempfile.tempdir = under
    try:
        return IsolatedGPGEnvironment()
    finally:
        tempfile.tempdir = old


def make_homes(under):
    """-> dict(sec=env with the test secret key (default) and a second generated secret key,
    pub=env with the test public key only, fpr=…, other=…)"""
    kd = _keydata()
    homes = {'sec': None, 'pub': None}
    try:
        sec = homes['sec'] = _iso_env(under)
        sec.import_key(io.BytesIO(kd.SECRET_KEY + kd.UID + kd.PUBLIC_KEY_SIG))
        p = subprocess.run([GNUPG, '--batch', '--with-colons', '--list-secret-keys'], env=_gpg_env(sec.home),
                           capture_output=True, timeout=60)
        fprs = [ln.split(':')[9] for ln in p.stdout.decode().splitlines() if ln.startswith('fpr:')]
        if p.returncode != 0 or len(fprs) != 1:
            raise RuntimeError('cannot list the imported test secret key: ' + p.stderr.decode('utf8', 'replace'))
        homes['fpr'] = fprs[0]
        with open(os.path.join(sec.home, 'gpg.conf'), 'a') as f:
            f.write(f'default-key {fprs[0]}\n')
        p = subprocess.run([GNUPG, '--batch', '--pinentry-mode', 'loopback', '--passphrase', '', '--status-fd', '1',
                            '--quick-generate-key', 'c14 other key <c14@example.com>', 'ed25519', 'sign', 'never'],
                           env=_gpg_env(sec.home), capture_output=True, timeout=120)
        other = [ln.split()[3] for ln in p.stdout.decode().splitlines() if ln.startswith('[GNUPG:] KEY_CREATED')]
        if p.returncode != 0 or len(other) != 1:
            raise RuntimeError('cannot generate the second secret key: ' + p.stderr.decode('utf8', 'replace'))
        homes['other'] = other[0]
        pub = homes['pub'] = _iso_env(under)
        pub.import_key(io.BytesIO(kd.PUBLIC_KEY + kd.UID + kd.PUBLIC_KEY_SIG))
        # settle trustdb etc. single-threaded before workers share the homes
        probe = real_clearsign(sec.home, 'DATA a 0\n')
        for e in (sec, pub):
            with io.StringIO(probe) as f:
                e.verify_file(f)
        _kill_agents(pub.home)          # nothing in the public-only home needs an agent
    except BaseException:
        close_homes(homes)
        raise
    return homes


def close_homes(homes):
    for k in ('sec', 'pub'):
        e = homes.get(k)
        if e is None:
            continue
        home = e._home
        if home is None:
            continue
        try:
            if os.path.isdir(home):
                e.close()
        except Exception:               # noqa: BLE001 - cleanup must go on
            pass
        _kill_agents(home)
        homes[k] = None


def real_clearsign(home, body, keyid=None):
    argv = [GNUPG, '--batch', '--no-tty']
    if keyid:
        argv += ['--local-user', keyid]
    p = subprocess.run(argv + ['--clearsign'], input=body.encode('utf8'), env=_gpg_env(home),
                       capture_output=True, timeout=60)
    if p.returncode != 0:
        raise RuntimeError('harness gpg --clearsign failed: ' + p.stderr.decode('utf8', 'replace'))
    return p.stdout.decode('utf8')


def real_decrypt(home, data):
    """-> (good, cleartext, fingerprint, primary fingerprint, detail)"""
    p = subprocess.run([GNUPG, '--batch', '--no-tty', '--status-fd', '2', '--output', '-', '--decrypt'],
                       input=data, env=_gpg_env(home), capture_output=True, timeout=60)
    st = p.stderr
    fpr = pfpr = None
    for ln in st.splitlines():
        if ln.startswith(b'[GNUPG:] VALIDSIG'):
            sp = ln.split(b' ')
            fpr = sp[2].decode('ascii', 'replace')
            pfpr = sp[11].decode('ascii', 'replace') if len(sp) >= 12 else None
    good = (p.returncode == 0 and st.count(b'[GNUPG:] GOODSIG') == 1 and st.count(b'[GNUPG:] VALIDSIG') == 1
            and b'[GNUPG:] BADSIG' not in st and b'[GNUPG:] ERRSIG' not in st)
    return good, p.stdout.decode('utf8', 'replace'), fpr, pfpr, (p.returncode, st.count(b'[GNUPG:] GOODSIG'))


def _atexit_cleanup():
    if H['homes'] and H['parent'] == os.getpid():
        close_homes(H['homes'])
        H['homes'] = None


def setup(tier, seed, base):
    H['parent'] = os.getpid()
    H['homes'] = make_homes(base)
    atexit.register(_atexit_cleanup)


# ====================================================================== scenario

TOP_NAMES = ('Manifest', 'Manifest.gz')
BIG = 10 ** 6


def _rot(case):
    return case['seed'] + case.get('variant', 0)


def build_tree(case):
    """-> (Tree with unsigned Manifests rendered, unsigned top-level text, list of sub-Manifest paths, hashes)"""
    k0 = _rot(case)
    top = case.get('top', TOP)
    nm = NAMES[case['contents']]
    hs = HASHSETS[k0 % len(HASHSETS)]
    d = nm['d']
    e = d + '/e'
    files = {}
    paths = list(nm['top']) + [d + '/' + n for n in nm['sub']] + [e + '/' + n for n in nm['deep']]
    for k, p in enumerate(paths):
        files[p] = BLOBS[(k + k0) % len(BLOBS)]
    top_f = [('F', 'DATA', p, hs) for p in nm['top']]
    sub_f = [('F', 'DATA', d + '/' + n, hs) for n in nm['sub']]
    deep_f = [('F', 'DATA', e + '/' + n, hs) for n in nm['deep']]
    lay = case['layout']
    if lay == 'flat':
        specs = [MSpec(top, top_f + sub_f + deep_f)]
    elif lay.startswith('nested'):
        comp = lay.split('_')[1] if '_' in lay else None
        md = d + '/Manifest' + ('.' + comp if comp else '')
        me = e + '/Manifest'
        specs = [MSpec(top, top_f + [('M', md, hs)]),
                 MSpec(md, sub_f + [('M', me, hs)]),
                 MSpec(me, deep_f)]
    elif lay == 'sibling':
        specs = [MSpec(top, [('M', 'Manifest.files', hs)]),
                 MSpec('Manifest.files', top_f + sub_f + deep_f)]
    else:
        raise ValueError(lay)
    if case.get('extras', 'none') == 'own':
        # entries of the top-level Manifest that no update re-creates: DIST, IGNORE (of an existing directory), TIMESTAMP
        files[OWN_IGNORE + '/junk'] = b'junk'
        specs[0].items += [('E', rm.file_entry('DIST', OWN_DIST, OWN_DIST_DATA, hs)), ('E', ('IGNORE', OWN_IGNORE)),
                           ('E', ('TIMESTAMP', OWN_TIMESTAMP))]
    tree = Tree(files)
    texts = render_layout(tree, specs)
    return tree, texts[top], [s.path for s in specs if s.path != top], hs


def edit_targets(case):
    nm = NAMES[case['contents']]
    return [nm['top'][0], nm['d'] + '/e/' + nm['deep'][-1]]


def apply_edit(root, case):
    for p in edit_targets(case):
        with open(os.path.join(root, p), 'ab') as f:
            f.write(b'+')


def key_name(case):
    """case['keyid']: False = default key, True = explicit key id A, 'B' = explicit key id B"""
    return {False: 'default', True: 'explicit', 'B': 'explicit-B'}[case['keyid']]


def key_choice(case, homes):
    """-> (key id handed to gemato or None, fingerprint the signature must be made with)
    scripted: A, B = two keys other than the default one; real GnuPG: A = the second secret key, B = the default
    key named explicitly by its fingerprint"""
    k = case['keyid']
    if case['backend'] == 'scripted':
        return {False: (None, FAKE_DEFAULT), True: (FAKE_OTHER, FAKE_OTHER), 'B': (FAKE_THIRD, FAKE_THIRD)}[k]
    return {False: (None, homes['fpr']), True: (homes['other'], homes['other']), 'B': (homes['fpr'], homes['fpr'])}[k]


def case_desc(case):
    if case.get('history'):
        return ('H',) + tuple(case_desc(st) for st in case['history'])
    return (case['backend'], SIGN_NAME[case['sign']], case['orig'], key_name(case),
            case['signer'], case['layout'], case['contents'], case['change'], case['iface'],
            case.get('top', TOP), case.get('wm'), case.get('variant', 0), case.get('extras', 'none'))


def want_signed(case):
    """-> True / False / None (DONT_CARE)"""
    if case['sign'] is True:
        return True
    if case['sign'] is False:
        return False
    if case['orig'] in ('signed', 'signed_by_gemato'):
        return True
    if case['orig'] == 'unsigned':
        return False
    return None


# ====================================================================== driving gemato

class _FrozenDatetime(_dt.datetime):
    """gemato.cli refreshes an existing TIMESTAMP entry with the current time: freeze it (determinism)."""

    @classmethod
    def utcnow(cls):
        return _dt.datetime(*FROZEN_NOW)

    @classmethod
    def now(cls, tz=None):
        r = _dt.datetime(*FROZEN_NOW, tzinfo=_dt.timezone.utc)
        return r.astimezone(tz) if tz is not None else r.replace(tzinfo=None)

    @classmethod
    def today(cls):
        return cls.now()


_FROZEN_MODULE = types.ModuleType('datetime')
_FROZEN_MODULE.__dict__.update({k: v for k, v in vars(_dt).items() if not k.startswith('__')})
_FROZEN_MODULE.datetime = _FrozenDatetime


class _FrozenClock:
    def __enter__(self):
        self.old = gemato.cli.datetime
        gemato.cli.datetime = _FROZEN_MODULE
        return self

    def __exit__(self, *a):
        gemato.cli.datetime = self.old
        return False


def run_update(root, case, keyid, hs, env, keyfile=None):
    """-> observation (gem.call / gem.cli) with o['stage'] for the library."""
    forced = case['change'] == 'forced'
    top = case.get('top', TOP)
    wm = case.get('wm')
    if case['iface'] == 'lib':
        stage = ['load']

        def go():
            kw = {'hashes': list(hs), 'openpgp_env': env, 'sign_openpgp': case['sign']}
            if keyid is not None:
                kw['openpgp_keyid'] = keyid
            if case['orig'] == 'signed_noverify':
                kw['verify_openpgp'] = False
            if wm is not None:
                kw['compress_watermark'] = wm
            m = gem.loader(root, top, **kw)
            stage[0] = 'update'
            m.update_entries_for_directory('')
            stage[0] = 'save'
            m.save_manifests(force=forced)
            stage[0] = 'done'
            return 0
        o = gem.call(go)
        o['stage'] = stage[0]
        return o
    assert top == TOP, 'the CLI only finds an uncompressed top-level Manifest'
    argv = ['update', '-H', ' '.join(hs)]
    if case['sign'] is True:
        argv.append('-s')
    elif case['sign'] is False:
        argv.append('-S')
    if keyid is not None:
        argv += ['-k', keyid]
    if keyfile is not None:
        argv += ['-K', keyfile]
    if forced:
        argv.append('-f')
    if wm is not None:
        argv += ['-c', str(wm)]
    argv.append(root)
    with _FrozenClock():
        o = gem.cli(argv)
    o['stage'] = None
    return o


def completed(o):
    return o['kind'] == 'ret' and o.get('value') == 0


def reload_verified(root, top, env):
    """Fresh loader with verification on -> (observation, openpgp_signed, fingerprint, primary)"""
    box = {}

    def go():
        m = gem.loader(root, top, verify_openpgp=True, openpgp_env=env)
        box['signed'] = m.openpgp_signed
        s = m.openpgp_signature
        box['fpr'] = getattr(s, 'fingerprint', None)
        box['pfpr'] = getattr(s, 'primary_key_fingerprint', None)
        return True
    o = gem.call(go)
    return o, box.get('signed'), box.get('fpr'), box.get('pfpr')


def load_unverified(text):
    m = ManifestFile()

    def go():
        m.load(io.StringIO(text), verify_openpgp=False)
        return [rm.from_gemato(x) for x in m.entries]
    return gem.call(go)


def read_top(root):
    """-> (name or None, decompressed bytes or None, problem or None): the top-level Manifest now on disk"""
    found = [n for n in TOP_NAMES if os.path.lexists(os.path.join(root, n))]
    if not found:
        return None, None, None
    if len(found) > 1:
        return None, None, f'two top-level Manifest files {found}'
    with open(os.path.join(root, found[0]), 'rb') as f:
        raw = f.read()
    if raw == b'':
        return found[0], b'', None
    try:
        return found[0], decompress(raw, comp_of(found[0])), None
    except Exception as e:              # noqa: BLE001 - classified as malformed
        return found[0], None, f'{found[0]} cannot be decompressed: {e!r}'


def classify_top(data, problem):
    """-> (class, split_envelope result or None)"""
    if problem:
        return 'other', ('other', problem)
    if data is None:
        return 'absent', None
    if data == b'':
        return 'empty', None
    try:
        text = data.decode('utf8')
    except UnicodeDecodeError:
        return 'other', ('other', 'not UTF-8')
    r = split_envelope(text)
    return r[0], r


# ====================================================================== one case

def _with_gpg(case, homes, signer, fn):
    """Run fn(env, recorder) with the back end of the case in place; the CLI gets its environment through
    GNUPGHOME (real) / the fake subprocess module alone (scripted)."""
    if case['backend'] == 'scripted':
        fake = FakeGpg(signer)
        with _Installed(fake):
            return fn(SystemGPGEnvironment(), fake), fake
    # 'badkey': the secret keys are there, the requested one is not; every other failure: public key only
    env = homes['sec'] if signer in ('ok', 'badkey') else homes['pub']
    fake = RecGpg()
    old = os.environ.get('GNUPGHOME')
    try:
        with _Installed(fake):
            os.environ['GNUPGHOME'] = env.home
            return fn(env, fake), fake
    finally:
        if old is None:
            os.environ.pop('GNUPGHOME', None)
        else:
            os.environ['GNUPGHOME'] = old


def execute(case, scratch, homes, root=None):
    """Build, run, observe.  -> dict of observations (no judgement)."""
    if root is None:
        root = fresh_root(scratch)
    backend = case['backend']
    top = case.get('top', TOP)
    tree, top_body, subs, hs = build_tree(case)
    keyid, exp_key = key_choice(case, homes)
    orig_text = top_body.encode('utf8')
    if case['orig'] in ('signed', 'signed_noverify'):
        if backend == 'scripted':
            signed = fake_sign(top_body, FAKE_DEFAULT)
        else:
            signed = real_clearsign(homes['sec'].home, top_body)
        orig_text = signed.encode('utf8')
        tree.files[top] = compress(orig_text, comp_of(top))
    tree.write(root)
    ob = {'root': root, 'exp_key': exp_key, 'keyid': keyid, 'hs': hs, 'prelim': None}
    if case['orig'] == 'signed_by_gemato':
        # the signed original is produced by gemato itself: forced, signing save with the default key
        pre = dict(case, sign=True, change='forced', iface='lib', orig='unsigned', wm=None)
        po, _f = _with_gpg(case, homes, 'ok', lambda env, _r: run_update(root, pre, None, hs, env))
        _n, data, _p = read_top(root)
        if not completed(po) or not data or split_envelope(data.decode('utf8', 'replace'))[0] != 'signed':
            ob['prelim'] = gem.brief(po)
        orig_text = data if data is not None else b''
    ob['orig_top'] = orig_text
    ob['orig_raw'] = read_raw(root, top)
    if case['change'] == 'edit':
        apply_edit(root, case)

    # ---- the run under test ('badkey': a key id nobody has the secret key for)
    run_keyid = UNKNOWN_KEY if case['signer'] == 'badkey' else keyid
    keyfile = None
    old_tmp = tempfile.tempdir
    if case['signer'] == 'keyfile':
        # gemato builds its own isolated GnuPG home from this file (public key only): keep that home inside scratch
        keyfile = os.path.join(scratch, 'c14-public-key.bin')
        kd = _keydata()
        with open(keyfile, 'wb') as f:
            f.write(kd.PUBLIC_KEY + kd.UID + kd.PUBLIC_KEY_SIG)
        tempfile.tempdir = scratch
    try:
        ob['run'], ob['fake'] = _with_gpg(
            case, homes, case['signer'],
            lambda env, _r: run_update(root, case, run_keyid, hs, env if case['iface'] == 'lib' else None, keyfile))
    finally:
        tempfile.tempdir = old_tmp
    ob['subs_expected'] = subs
    observe_disk(ob, root, top)
    return ob


def read_raw(root, name):
    try:
        with open(os.path.join(root, name), 'rb') as f:
            return f.read()
    except FileNotFoundError:
        return None


def observe_disk(ob, root, top):
    """What is on disk now: the top-level Manifest (as found, and the raw bytes under its original name) and every
    other Manifest file."""
    ob['top_name'], ob['top'], problem = read_top(root)
    ob['top_class'], ob['top_split'] = classify_top(ob['top'], problem)
    ob['after_raw'] = read_raw(root, top)
    ob['top_others'] = [n for n in TOP_NAMES if n != top and os.path.lexists(os.path.join(root, n))]
    sub_texts = {}
    for dp, _dn, fns in os.walk(root):
        for fn in fns:
            full = os.path.join(dp, fn)
            rel = os.path.relpath(full, root)
            if not fn.startswith('Manifest') or rel in TOP_NAMES:
                continue
            with open(full, 'rb') as f:
                raw = f.read()
            try:
                sub_texts[rel] = decompress(raw, comp_of(fn)).decode('utf8')
            except Exception as e:          # noqa: BLE001 - reported by judge
                sub_texts[rel] = e
    ob['subs'] = sub_texts
    return ob


def run_followup(case, ob, homes):
    """The next ordinary update+save on the tree a failed signing run left behind: same interface, same kind of
    change, same key id selection, WORKING signer; sign option unset when the top-level Manifest was signed
    originally (a signed tree stays signed), on otherwise (the request is repeated).
    -> (follow-up case, observation) or (None, reason why it cannot be run)"""
    root = ob['root']
    top = case.get('top', TOP)
    if not os.path.lexists(os.path.join(root, top)):
        others = [n for n in TOP_NAMES if os.path.lexists(os.path.join(root, n))]
        if len(others) != 1:
            return None, 'no top-level Manifest left to update'
        top = others[0]
    if case['iface'] == 'cli' and top != TOP:
        return None, 'the CLI cannot find the top-level Manifest that is left'
    was_signed = case['orig'] != 'unsigned'
    case2 = dict(case, signer='ok', sign=None if was_signed else True, orig='signed' if was_signed else 'unsigned',
                 top=top, followup=True)
    _n, before, _p = read_top(root)
    if case['change'] == 'edit':
        apply_edit(root, case)
    ob2 = {'root': root, 'exp_key': ob['exp_key'], 'keyid': ob['keyid'], 'hs': ob['hs'], 'prelim': None,
           'orig_top': before, 'orig_raw': read_raw(root, top), 'subs_expected': ob['subs_expected']}
    ob2['run'], ob2['fake'] = _with_gpg(
        case2, homes, 'ok',
        lambda env, _r: run_update(root, case2, ob['keyid'], ob['hs'], env if case['iface'] == 'lib' else None))
    observe_disk(ob2, root, top)
    return case2, ob2


FAIL_CLASS = {'ok': None, 'fail': 'exit_nonzero', 'fail_partial': 'exit_nonzero_partial_output', 'badkey': 'unknown_key',
              'missing': 'binary_missing', 'missing_sign': 'binary_missing', 'keyfile': 'exit_nonzero_keyfile_home',
              'killed': 'terminated_by_signal', 'killed_partial': 'terminated_by_signal_partial_output'}


def fail_how(fail_class):
    return ('exits non-zero' if fail_class.startswith('exit_nonzero') else
            'is terminated by a signal (negative wait() status)' if fail_class.startswith('terminated_by_signal') else
            'has no secret key for the requested key id' if fail_class == 'unknown_key' else 'cannot be started')


def own_entries(text):
    """Body of a Manifest -> (DIST and IGNORE entries, has TIMESTAMP) or None if the reference cannot read it."""
    st, ents = rm.parse(text)
    if st != 'ok':
        return None
    return frozenset(e for e in ents if e[0] in ('DIST', 'IGNORE')), any(e[0] == 'TIMESTAMP' for e in ents)


def _describe(data):
    cls, sp = classify_top(data, None)
    if cls not in ('signed', 'plain'):
        return cls
    own = own_entries(sp[1])
    st, ents = rm.parse(sp[1])
    n = len(ents) if st == 'ok' else '?'
    return (f'{len(data)} bytes, {"clear-signed" if cls == "signed" else "plain"}, {n} entries'
            + (f' incl. {len(own[0])} DIST/IGNORE{" + TIMESTAMP" if own[1] else ""}' if own and (own[0] or own[1]) else ''))


def state_after_failure(case, ob, homes):
    """The top-level Manifest a failed signing run left behind, judged by C14: a signed tree stays signed, and no
    unsigned Manifest is produced where a signature is required.
    -> (state label, 'ok' | 'violation' | 'dontcare', explanation)"""
    was_signed = case['orig'] != 'unsigned'
    if ob['after_raw'] is not None and ob['after_raw'] == ob['orig_raw']:
        if ob['top_others']:
            return ('untouched+stray', 'dontcare',
                    f'the top-level Manifest is byte-identical but a second top-level file {ob["top_others"]} '
                    f'({[_describe_file(ob["root"], n) for n in ob["top_others"]]}) was left beside it')
        return 'untouched', 'ok', ''
    cls = ob['top_class']
    if cls == 'signed':
        if case['backend'] == 'scripted':
            good = fake_verify(ob['top'].decode('utf8')) is not None
        else:
            good = real_decrypt(homes['sec'].home, ob['top'])[0]
        if not good:
            if was_signed:
                return ('signed_bad', 'violation', 'the signed top-level Manifest was replaced by an envelope whose '
                        'signature does not verify')
            return 'signed_bad', 'dontcare', 'an envelope that does not verify replaced the unsigned top-level Manifest'
        if not was_signed:
            return 'signed', 'dontcare', 'a verifying signed Manifest appeared although the signer failed'
        o_sp = classify_top(ob['orig_top'], None)[1]
        before = own_entries(o_sp[1]) if o_sp and o_sp[0] == 'signed' else None
        now = own_entries(ob['top_split'][1])
        if before is None or now is None:
            return 'signed', 'dontcare', 'changed but still signed top-level Manifest, entries undecided'
        if before[0] <= now[0] and before[1] == now[1]:
            return 'signed', 'ok', ''
        return ('signed_lost_entries', 'dontcare', 'still signed, but DIST/IGNORE/TIMESTAMP entries of the top-level '
                'Manifest were lost (C10 judges what an update may touch)')
    what = {'empty': 'an EMPTY file (0 bytes: signature and all entries gone)',
            'plain': 'a plain unsigned Manifest', 'absent': 'nothing (the file is gone)'}.get(cls, f'garbage ({cls})')
    if was_signed:
        return cls, 'violation', f'the clear-signed top-level Manifest was replaced by {what}'
    if cls in ('plain', 'empty'):
        return cls, 'violation', (f'a signature was required, yet the unsigned top-level Manifest was overwritten with '
                                  f'{what}')
    return cls, 'dontcare', f'the unsigned top-level Manifest was replaced by {what}'


def _describe_file(root, name):
    raw = read_raw(root, name)
    if raw is None:
        return 'absent'
    if raw == b'':
        return 'empty'
    try:
        return _describe(decompress(raw, comp_of(name)))
    except Exception:                   # noqa: BLE001 - description only
        return f'{len(raw)} undecodable bytes'


def judge(case, ob, homes):
    """-> (violations [(sig, message)], dontcare reason or None, outcome labels [str], counters {name: n})"""
    viols, labels, cnt = [], [], {}
    backend, signer, iface = case['backend'], case['signer'], case['iface']
    r = ob['run']
    want = want_signed(case)
    desc = '/'.join(str(x) for x in case_desc(case))
    pre = f'{backend}/{iface}'
    done = completed(r)
    dc = None

    def bad(sig, msg):
        viols.append((sig, f'{sig["check"]}: [{desc}] {msg}'))

    # ---- sub-Manifests: never signed, whatever else happened
    for rel, text in sorted(ob['subs'].items()):
        if isinstance(text, Exception):
            if done:
                bad({'check': 'sub_manifest_unreadable'}, f'sub-Manifest {rel!r} cannot be decoded: {text!r}')
            continue
        cnt['sub_manifests_checked'] = cnt.get('sub_manifests_checked', 0) + 1
        if comp_of(os.path.basename(rel)):
            cnt['sub_manifests_checked_compressed'] = cnt.get('sub_manifests_checked_compressed', 0) + 1
        arm = armor_lines(text)
        if arm:
            bad({'check': 'sub_manifest_signed'},
                f'sub-Manifest {rel!r} contains OpenPGP armor lines {arm[:2]!r} after the save '
                f'(sub-Manifests must always be written unsigned); text={text[:200]!r}')

    # ---- internal errors are never acceptable
    if r['kind'] == 'exc' and r.get('class') == 'internal':
        bad({'check': 'internal_error', 'where': r.get('where'), 'exc': r['exc']},
            f'{r["exc"]} at {r.get("where")} escaped update/save: {r.get("msg")}')
        labels.append(f'{pre}/internal_error/{r["exc"]}')
        return viols, None, labels, cnt

    load_must_fail = (signer == 'missing' and case['orig'] in ('signed', 'signed_by_gemato'))
    sign_broken = signer != 'ok'

    # ---- DONT_CARE configurations
    if ob['prelim'] is not None:
        dc = 'preliminary signing run by gemato (to produce the signed original) did not yield a signed Manifest'
        labels.append(f'{pre}/prelim_failed/{ob["prelim"]}')
        cnt['prelim_failed'] = 1
        return viols, dc, labels, cnt
    if load_must_fail:
        dc = 'gpg missing for every call and the original top-level Manifest is signed: the load itself cannot verify'
        labels.append(f'{pre}/load_without_gpg/{gem.brief(r)}/stage={r.get("stage")}/top_after='
                      + ('untouched' if ob['top'] == ob['orig_top'] else ob['top_class']))
        return viols, dc, labels, cnt
    if want is None:
        dc = 'sign option unset and the signed top-level Manifest was loaded with verification off'
        labels.append(f'{pre}/noverify_unset/{gem.brief(r)}/top_after={ob["top_class"]}')
        return viols, dc, labels, cnt

    fake = ob['fake']
    fail_class = FAIL_CLASS[signer]
    cnt[f'{backend}_clearsign_attempts'] = fake.sign_attempts

    def plain_describes_tree():
        """Is the top-level file a non-empty plain Manifest that describes the tree as it is now?
        -> True / False / None (undecided)"""
        if ob['top_class'] != 'plain' or not ob['top']:
            return False
        st, ents = rm.parse(ob['top_split'][1])
        if st != 'ok' or not ents:
            return False if st != 'dontcare' else None
        v = refverify.expected_verify(ob['root'], ob['top_name'], '')
        return None if v.kind == 'dontcare' else v.kind == 'match'

    # ---- a signature is required but the signer is broken: error, and no unsigned new Manifest
    if want and sign_broken and not (done and fake.sign_attempts == 0):
        exp_exc = 'OpenPGPNoImplementation' if fail_class == 'binary_missing' else 'OpenPGPSigningFailure'
        state, s_verdict, s_why = state_after_failure(case, ob, homes)
        after = state
        reported = None
        if iface == 'lib':
            if r['kind'] == 'exc' and r.get('class') == 'gemato':
                reported = True
                labels.append(f'{pre}/signfail:{signer}/exc:{r["exc"]}@{r.get("stage")}/top_after={after}')
                if r['exc'] == exp_exc:
                    cnt['signfail_expected_class:' + exp_exc] = 1
            elif r['kind'] == 'exc':
                dc = f'signing failure surfaced as a non-gemato exception {r["exc"]} (reported, but not as designed)'
                labels.append(f'{pre}/signfail:{signer}/raw:{r["exc"]}/top_after={after}')
            else:
                reported = False
        else:
            has_err = any(lv == 'ERROR' for lv, _m in r.get('log', ()))
            if r['kind'] == 'ret' and r.get('exit') not in (0, None) and has_err:
                reported = True
                labels.append(f'{pre}/signfail:{signer}/exit:{r["exit"]}+ERROR/top_after={after}')
                if r['exit'] == 1:
                    cnt['signfail_cli_exit1'] = 1
            elif r['kind'] == 'ret' and r.get('exit') in (0, None):
                reported = False
            elif r['kind'] == 'ret':
                dc = f'CLI exit status {r.get("exit")!r} without ERROR log line'
                labels.append(f'{pre}/signfail:{signer}/exit:{r.get("exit")}/noERROR/top_after={after}')
            else:
                dc = f'signing failure escaped the CLI as {r["exc"]}'
                labels.append(f'{pre}/signfail:{signer}/cli-raw:{r["exc"]}/top_after={after}')
        # the disk must not hold a freshly written plain Manifest describing the updated tree
        fresh_plain = False
        if not state.startswith('untouched'):
            fresh_plain = plain_describes_tree()
        was = 'signed' if case['orig'] != 'unsigned' else 'unsigned'
        cnt[f'signfail_state_judged:{was}'] = 1
        cnt[f'signfail_state_judged:top={case.get("top", TOP)}'] = 1
        cnt[f'signfail_state_judged:{"nested" if ob["subs_expected"] else "flat"}'] = 1
        cnt[f'signfail_state_judged:extras={case.get("extras", "none")}'] = 1
        cnt[f'signfail_state_judged:{backend}/{iface}/{fail_class}'] = 1
        if reported is False:
            labels.append(f'{pre}/signfail:{signer}/NOT-REPORTED/top_after={after}')
            bad({'check': 'signing_failure_not_reported', 'failure': fail_class},
                f'a signature is required (sign={SIGN_NAME[case["sign"]]}, originally {case["orig"]}) and the signer '
                f'{fail_how(fail_class)} (argv {fake.signs[-1][0] if fake.signs else "-"}), '
                f'but update+save returned normally ({gem.brief(r)}); top-level Manifest afterwards: {after}'
                f'{" (a plain unsigned Manifest describing the updated tree)" if fresh_plain else ""} {_show(ob["top"])}')
        elif fresh_plain:
            bad({'check': 'unsigned_manifest_written_on_signing_failure', 'failure': fail_class},
                f'the signing failure was reported ({gem.brief(r)}) yet the top-level Manifest was rewritten as a plain '
                f'unsigned Manifest that describes the updated tree: {_show(ob["top"])}')
        elif fresh_plain is None and dc is None:
            dc = 'plain top-level Manifest after signing failure, tree verdict undecided'
        # the state left on disk: the failed save must not have replaced the top-level Manifest by something unsigned
        if s_verdict == 'violation' and not (fresh_plain and reported is not False):
            how = fail_how(fail_class)
            check = ('signed_top_level_destroyed_by_failed_signing' if was == 'signed'
                     else 'unsigned_top_level_written_on_signing_failure')
            bad({'check': check, 'left': state},
                f'sign option {SIGN_NAME[case["sign"]]}, top-level Manifest {case.get("top", TOP)} originally '
                f'{case["orig"]} ({_describe(ob["orig_top"])}); the signer {how} and update+save ended with '
                f'{gem.brief(r)}: {s_why}; top-level Manifest now: {_show(ob["top"])}')
        elif s_verdict == 'dontcare':
            labels.append(f'{pre}/signfail-state-undecided/{state}')
            cnt['signfail_state_dontcare'] = 1
            if dc is None and not viols:
                dc = 'state after the signing failure: ' + s_why
        elif s_verdict == 'ok':
            cnt['signfail_state_ok:' + state] = 1
        cnt['signfail_top_after:' + after] = 1

        # the follow-up: the next ordinary update+save with a working signer must yield a signed top-level Manifest
        if case.get('no_followup'):
            cnt['followup_left_to_thorough_tier'] = 1
            return viols, dc, labels, cnt
        case2, ob2 = run_followup(case, ob, homes)
        if case2 is None:
            labels.append(f'{pre}/signfail-followup/not-run/{ob2}')
            cnt['followup_not_run'] = 1
            if s_verdict == 'ok':
                cnt['followup_missing_after_good_state'] = 1
            return viols, dc, labels, cnt
        cnt['followup_runs'] = 1
        v2, dc2, labels2, cnt2 = judge(case2, ob2, homes)
        for lb in labels2:
            labels.append('followup:' + lb)
        for k, n in cnt2.items():
            if k == 'reloads':
                cnt['reloads'] = cnt.get('reloads', 0) + n
            else:
                cnt['followup:' + k] = cnt.get('followup:' + k, 0) + n
        for sig2, msg2 in v2:
            bad({'check': 'followup_after_signing_failure', 'originally': was, 'followup': sig2},
                f'after the reported signing failure ({fail_class}; top-level Manifest left {state}) the next update+save '
                f'(working signer, sign option {SIGN_NAME[case2["sign"]]}, top-level Manifest originally {case["orig"]}) '
                f'does not satisfy C14: {msg2}')
        if dc2:
            labels.append(f'{pre}/signfail-followup/undecided')
            cnt['followup_dontcare'] = 1
            if case.get('wm') is not None and not completed(ob2['run']):
                # the aborted save may already have renamed (re-compressed) sub-Manifests which the old top-level
                # Manifest still lists under their old names: the next update stops with an error, nothing is
                # written unsigned - C14 is silent about that
                cnt['followup_stopped_with_error_after_watermark_renames'] = 1
            elif s_verdict == 'ok':
                cnt['followup_undecided_after_good_state'] = 1
        elif not v2:
            cnt['followup_ok'] = 1
            cnt[f'followup_ok:{backend}/{iface}'] = 1
        return viols, dc, labels, cnt

    # ---- from here on the run has everything it needs (or never asked the signer): it should complete
    if not done:
        dc = 'update did not complete although no signature was needed or the signer works: ' + gem.brief(r)
        labels.append(f'{pre}/unexpected_abort/{gem.brief(r)}/stage={r.get("stage")}')
        cnt['unexpected_abort'] = 1
        return viols, dc, labels, cnt

    cls = ob['top_class']
    renamed = ob['top_name'] is not None and ob['top_name'] != case.get('top', TOP)
    rn = f'top-level Manifest {case.get("top", TOP)} was renamed to {ob["top_name"]} by the save; ' if renamed else ''
    if renamed:
        cnt['top_level_renamed'] = 1
    labels.append(f'{pre}/saved/want={"signed" if want else "plain"}/got={cls}'
                  + (f'/signer={signer}' if sign_broken else ''))
    if cls not in ('signed', 'plain'):
        why = ob['top_split'][1] if ob['top_split'] else cls
        bad({'check': 'top_level_malformed', 'class': cls},
            f'saved top-level Manifest is neither a plain Manifest nor one cleartext-signed message ({why}); '
            f'signer invoked {fake.sign_attempts} time(s): {_show(ob["top"])}')
        return viols, None, labels, cnt
    if want and cls == 'plain':
        bad({'check': 'unsigned_output_when_signature_required', 'top_level_renamed': renamed},
            f'{rn}sign option {SIGN_NAME[case["sign"]]}, top-level Manifest originally {case["orig"]}: update+save returned '
            f'normally, the signer was invoked {fake.sign_attempts} time(s) and the saved top-level Manifest is plain: '
            f'{_show(ob["top"])}')
    if not want and cls == 'signed':
        bad({'check': 'signed_output_when_signing_disabled', 'top_level_renamed': renamed},
            f'{rn}sign option {SIGN_NAME[case["sign"]]}, top-level Manifest originally {case["orig"]}: the saved '
            f'top-level Manifest is clear-signed: {_show(ob["top"])}')

    text = ob['top'].decode('utf8')
    body = ob['top_split'][1]           # dash-unescaped body (signed) or the whole text (plain)
    b_st, b_ents = rm.parse(body)
    g = load_unverified(text)
    stop = False
    if g['kind'] != 'ret':
        bad({'check': 'written_top_level_does_not_load', 'got': gem.brief(g)},
            f'verification-off load of the written top-level Manifest gave {gem.brief(g)}: {_show(ob["top"])}')
        stop = True
    elif b_st == 'ok' and g['value'] != b_ents:
        bad({'check': 'loaded_entries_differ_from_written_body'},
            f'verification-off load yields {g["value"]!r}, the reference reading of the written body {b_ents!r}')
        stop = True
    elif b_st == 'reject':
        bad({'check': 'written_body_is_not_a_manifest'},
            f'the reference parser rejects the written body ({b_ents}): {body!r}')
        stop = True
    elif b_st == 'dontcare':
        dc = 'reference parser undecided on the written body: ' + str(b_ents)
        stop = True

    if cls == 'signed' and not stop:
        kk = key_name(case)
        # (i) the envelope must come from the signer, (ii) which was handed exactly the written entries
        if not fake.signs:
            bad({'check': 'envelope_not_from_signer'},
                f'the saved top-level Manifest is an envelope but the signer was never invoked: {_show(ob["top"])}')
            stop = True
        else:
            argv, stdin = fake.signs[-1]
            try:
                s_st, s_ents = rm.parse(stdin.decode('utf8'))
            except UnicodeDecodeError:
                s_st, s_ents = 'reject', 'signer input is not UTF-8'
            if s_st == 'dontcare':
                dc = 'reference parser undecided on the signer input: ' + str(s_ents)
                stop = True
            elif not (s_st == 'ok' and s_ents == b_ents):
                bad({'check': 'signed_cleartext_differs_from_written_entries'},
                    f'the signer ({argv!r}) was handed {stdin!r} = {(s_st, s_ents)!r}, but the body of the written '
                    f'envelope parses to {b_ents!r}')
                stop = True
            else:
                cnt[f'{backend}_signer_input_equals_written'] = 1
        # (iii) the signature verifies and authenticates exactly these entries
        if not stop:
            if backend == 'scripted':
                sig_fpr = fake_verify(text)
                good, clear = sig_fpr is not None, body
            else:
                good, clear, sig_fpr, _pf, _detail = real_decrypt(homes['sec'].home, ob['top'])
            if not good:
                bad({'check': 'saved_signature_does_not_verify'},
                    f'the saved envelope does not verify ({"toy scheme" if backend == "scripted" else "gpg --decrypt"}): '
                    f'{_show(ob["top"])}')
                stop = True
            else:
                cnt[f'{backend}_signature_verified'] = 1
                c_st, c_ents = rm.parse(clear)
                if not (c_st == 'ok' and c_ents == b_ents):
                    bad({'check': 'authenticated_cleartext_differs_from_written_entries'},
                        f'authenticated cleartext {clear!r} parses to {(c_st, c_ents)!r}; the written body parses to '
                        f'{b_ents!r}')
                    stop = True
                else:
                    cnt[f'{backend}_cleartext_equals_written'] = 1
        # (iv) made with the requested key
        if not stop:
            # the signer makes one signature per DISTINCT key it is told to use: exactly the requested one / none (default)
            used = {argv[k + 1] for k in range(len(argv) - 1) if argv[k] == '--local-user'}
            if used != ({ob['keyid']} if ob['keyid'] is not None else set()):
                bad({'check': 'signed_with_wrong_key', 'keyid': kk},
                    f'openpgp_keyid={ob["keyid"]!r} but the signer was told to sign with {sorted(used)!r}: it was run as '
                    f'{argv[:12]!r}{"…" if len(argv) > 12 else ""}')
                stop = True
            elif sig_fpr != ob['exp_key']:
                bad({'check': 'signed_with_wrong_key', 'keyid': kk},
                    f'signature made by {sig_fpr}, expected the {kk} key {ob["exp_key"]} (signer argv {argv!r})')
                stop = True
            else:
                cnt[f'{backend}_key_{kk}_confirmed'] = 1
    elif cls == 'plain':
        cnt['clearsign_attempts_for_plain_output'] = fake.sign_attempts

    # ---- (v) re-load with verification on (working verifier)
    if not stop:
        if backend == 'scripted':
            with _Installed(FakeGpg('ok')):
                ro, rsigned, rfpr, _rp = reload_verified(ob['root'], ob['top_name'], SystemGPGEnvironment())
        else:
            ro, rsigned, rfpr, _rp = reload_verified(ob['root'], ob['top_name'], homes['sec'])
        cnt['reloads'] = 1
        if ro['kind'] != 'ret':
            bad({'check': 'reload_with_verification_fails', 'got': gem.brief(ro), 'signed': cls == 'signed'},
                f're-loading the saved top-level Manifest with OpenPGP verification on gave {gem.brief(ro)}: '
                f'{_show(ob["top"])}')
            stop = True
        elif bool(rsigned) != (cls == 'signed'):
            bad({'check': 'reload_signed_flag_wrong', 'signed': cls == 'signed'},
                f're-load reports openpgp_signed={rsigned!r} for a top-level Manifest that is {cls}')
            stop = True
        elif cls == 'signed':
            if rfpr != ob['exp_key']:
                bad({'check': 'reload_reports_other_key'},
                    f're-load reports signature by {rfpr}, expected {ob["exp_key"]}')
                stop = True
            else:
                cnt[f'{backend}_reload_verified'] = 1

    # ---- (vi) the written entries are the new ones: they describe the tree as it is now
    if not stop:
        tp = os.path.join(ob['root'], ob['top_name'])
        if cls == 'signed':
            with open(tp, 'wb') as f:       # armor stripped: dash-unescaped body only
                f.write(compress(body.encode('utf8'), comp_of(ob['top_name'])))
        v = refverify.expected_verify(ob['root'], ob['top_name'], '')
        if v.kind == 'dontcare':
            dc = dc or ('tree verdict undecided: ' + str(v.dc[:1]))
        elif v.kind != 'match':
            bad({'check': 'saved_entries_do_not_describe_tree', 'signed': cls == 'signed'},
                f'the saved ({cls}) top-level Manifest with its sub-Manifests does not describe the updated tree: '
                f'reference verdict {v.kind}, offenders={dict(v.offenders)} chain={v.chain_broken}; body={body!r}')
        else:
            cnt['tree_described'] = 1
        missing = [s for s in ob['subs_expected'] if s not in ob['subs']] if case.get('wm') is None else []
        if missing:
            dc = dc or f'sub-Manifests of the layout disappeared: {missing}'
    if viols:
        dc = None
    return viols, dc, labels, cnt


def _show(data):
    if data is None:
        return '<absent>'
    s = repr(data[:400])
    return s + ('…' if len(data) > 400 else '')


def run_history(case, scratch, homes):
    """part H: the update+save runs of case['history'] one after the other in THIS process, each on a tree of its own
    with a loader / CLI invocation of its own, each judged by ``judge`` as if it were alone.
    -> (violations [(sig, message)], dontcare reason or None, labels, counters, observations)"""
    base = fresh_root(scratch)
    steps = case['history']
    keys = '->'.join(key_name(st) for st in steps)
    viols, labels, cnt, obs = [], [], {}, []
    dc = None
    clean = True
    for i, step in enumerate(steps):
        root = os.path.join(base, f'h{i + 1}')
        os.mkdir(root)
        ob = execute(step, scratch, homes, root=root)
        obs.append(ob)
        v, d, lbs, c = judge(step, ob, homes)
        for sig, msg in v:
            viols.append(({'check': 'history:' + str(sig.get('check')), 'save': i + 1, 'keys': keys, 'inner': sig},
                          f'history of {len(steps)} update+save runs in one process (key ids {keys}; separate trees and '
                          f'loaders), save no. {i + 1} does not satisfy C14: {msg}'))
        if d and dc is None:
            dc = f'save no. {i + 1} of a history: {d}'
        clean = clean and not v and not d
        for lb in lbs:
            labels.append(f'history:s{i + 1}:{lb}')
        for k, n in c.items():
            if k in ('reloads', 'followup_runs'):
                cnt['H:' + k] = cnt.get('H:' + k, 0) + n
            else:
                cnt[f'H:s{i + 1}:{k}'] = cnt.get(f'H:s{i + 1}:{k}', 0) + n
        kk = key_name(step)
        if c.get(f'{step["backend"]}_key_{kk}_confirmed') and c.get(f'{step["backend"]}_reload_verified'):
            cnt[f'H:{step["backend"]}:save{i + 1}_signed_by_requested_key_alone:{keys}'] = 1
    cnt['H:histories'] = 1
    if clean:
        cnt['H:all_saves_in_order'] = 1
    if viols:
        dc = None
    return viols, dc, labels, cnt, obs


def run_case(case, scratch, homes):
    """Execute and judge ONE case (no accounting).  -> picklable dict"""
    if case.get('history'):
        viols, dc, labels, cnt, obs = run_history(case, scratch, homes)
        transitions = len(case['history']) + cnt.pop('H:reloads', 0) + cnt.get('H:followup_runs', 0)
        ob = obs[-1]
    else:
        ob = execute(case, scratch, homes)
        viols, dc, labels, cnt = judge(case, ob, homes)
        transitions = 1 + cnt.pop('reloads', 0) + cnt.get('followup_runs', 0)
    sample = None
    if case_desc(case) in SAMPLE_DESCS:
        sample = {'case': {k: v for k, v in case.items()}, 'outcome': labels,
                  'top_level_before': _show(ob['orig_top']), 'top_level_after': _show(ob['top'])}
    return {'violations': [{'sig': sig, 'case': case, 'message': msg} for sig, msg in viols], 'dc': dc,
            'labels': labels, 'cnt': cnt, 'transitions': transitions, 'sample': sample}


def in_child(fn):
    """fn() in a forked child process -> its (pickled) result.

    Every case runs in a process image of its own: whatever a gemato run leaves behind in the process (module / class
    level state) cannot reach the next case, so that each verdict depends on the case alone and reproduces in
    replay(); effects of EARLIER operations in the same process are explored explicitly (follow-up runs, part H)."""
    r, w = os.pipe()
    pid = os.fork()
    if pid == 0:
        status = 1
        try:
            gc.disable()                    # short-lived: no collector passes over the inherited heap (copy-on-write)
            os.close(r)
            try:
                payload = pickle.dumps(('ok', fn()))
            except BaseException:           # noqa: BLE001 - handed to the parent
                payload = pickle.dumps(('error', traceback.format_exc()))
            with os.fdopen(w, 'wb') as f:
                f.write(payload)
            status = 0
        finally:
            os._exit(status)
    os.close(w)
    with os.fdopen(r, 'rb') as f:
        data = f.read()
    _pid, st = os.waitpid(pid, 0)
    if not data:
        raise RuntimeError(f'C14 case process ended without a result (wait status {st})')
    kind, val = pickle.loads(data)
    if kind != 'ok':
        raise RuntimeError('C14 case process failed:\n' + val)
    return val


# ---- a pristine process for every isolated case
# Z: the "pristine" helper of this process: forked (worker_init) before the process has executed any gemato operation
# of a case; it executes nothing itself but forks one child per request.  A process that runs cases itself (quick
# tier) is no longer pristine - a fork of it would inherit whatever gemato left behind - and isolates through Z.
Z = {'owner': None, 'pid': None, 'req': None, 'resp': None}
DIRTY = {'pid': None}


def _isolated_job(case, scratch, own_homes):
    """Runs in a pristine child."""
    if own_homes and case['backend'] == 'real':
        hd = os.path.join(scratch, 'gpghomes')
        os.makedirs(hd, exist_ok=True)
        homes = make_homes(hd)
        try:
            return run_case(case, scratch, homes)
        finally:
            close_homes(homes)
    return run_case(case, scratch, H['homes'])


def start_pristine_helper():
    if Z['owner'] == os.getpid():
        return
    if DIRTY['pid'] == os.getpid():
        raise RuntimeError('C14: this process has already run cases itself, no pristine helper can be forked from it')
    req_r, req_w = os.pipe()
    resp_r, resp_w = os.pipe()
    pid = os.fork()
    if pid == 0:
        try:
            os.close(req_w)
            os.close(resp_r)
            fin, fout = os.fdopen(req_r, 'rb'), os.fdopen(resp_w, 'wb')
            while True:
                try:
                    args = pickle.load(fin)
                except EOFError:
                    break
                try:
                    ans = ('ok', in_child(lambda: _isolated_job(*args)))
                except BaseException:       # noqa: BLE001 - handed to the requester
                    ans = ('error', traceback.format_exc())
                pickle.dump(ans, fout)
                fout.flush()
        finally:
            os._exit(0)
    os.close(req_r)
    os.close(resp_w)
    Z.update(owner=os.getpid(), pid=pid, req=os.fdopen(req_w, 'wb'), resp=os.fdopen(resp_r, 'rb'))


def worker_init(tier, seed, scratch):
    start_pristine_helper()


def isolated(case, scratch, own_homes=False):
    """The case in a pristine process of its own -> result of run_case"""
    if Z['owner'] == os.getpid():
        pickle.dump((case, scratch, own_homes), Z['req'])
        Z['req'].flush()
        kind, val = pickle.load(Z['resp'])
        if kind != 'ok':
            raise RuntimeError('C14 isolated case failed:\n' + val)
        return val
    if DIRTY['pid'] == os.getpid():
        raise RuntimeError('C14: no pristine helper and this process has run cases itself')
    return in_child(lambda: _isolated_job(case, scratch, own_homes))


ANOMALIES = ('prelim_failed', 'unexpected_abort', 'followup_missing_after_good_state',
             'followup_undecided_after_good_state')


def in_order(res):
    """Did the oracle find everything in order (no violation, none of the anomalies finish() complains about)?"""
    return not res['violations'] and not any(k.split(':')[-1] in ANOMALIES for k in res['cnt'])


def check_case(case, scratch, homes, stats=None, isolate='always', own_homes=False):
    """isolate='always': the case runs in a pristine process of its own (thorough tier, replay).
    isolate='unless_in_order' (quick tier): the case first runs in the worker process itself, i.e. after whatever
    cases this worker has run before; a result that is entirely in order is accepted (the oracle judged this very
    execution), anything else is discarded and the case is run again in a pristine process, whose result is the
    one that counts - so every reported violation depends on its case alone and reproduces in replay()."""
    if isolate == 'always':
        res = isolated(case, scratch, own_homes)
    else:
        start_pristine_helper()
        DIRTY['pid'] = os.getpid()
        first = run_case(case, scratch, homes)
        res = first
        if not in_order(first):
            res = isolated(case, scratch)
            if stats is not None:
                stats.counters['cases_rerun_in_pristine_process'] += 1
                if in_order(res):
                    stats.counters['not_in_order_only_after_earlier_cases_in_the_same_process'] += 1
                    if not any(n.startswith('HISTORY-DEPENDENT') for n in stats.notes):
                        what = first['violations'][0]['message'] if first['violations'] else sorted(first['cnt'])
                        stats.notes.append(f'HISTORY-DEPENDENT result (in order in a pristine process, not in order after '
                                           f'the cases the worker had run before): {str(what)[:600]}')
    if stats is not None:
        cnt, dc = res['cnt'], res['dc']
        stats.evaluations += 1
        stats.transitions += res['transitions']
        for lb in res['labels']:
            stats.outcomes[lb] += 1
        for k, n in cnt.items():
            stats.counters[k] += n
        if dc:
            stats.dontcare[dc] += 1
        else:
            stats.compared += 1
        stats.case(case_desc(case), nontrivial=not dc)
        stats.counters[f'cases_{case["backend"]}'] += 1
        if res['sample']:
            stats.sample(res['sample'])
    return res['violations']


# ====================================================================== runner interface

ORIGS_LIB = ('signed', 'unsigned', 'signed_noverify', 'signed_by_gemato')
ORIGS_CLI = ('signed', 'unsigned', 'signed_by_gemato')     # the CLI cannot switch verification off for update
W_TOPWM_LIB = (('Manifest', 0), ('Manifest', BIG), ('Manifest.gz', None), ('Manifest.gz', 0), ('Manifest.gz', BIG))
W_TOPWM_CLI = (('Manifest', 0), ('Manifest', BIG))          # the CLI only finds an uncompressed top-level Manifest
W_LAYOUTS = ('flat', 'nested', 'nested_gz')
W_ORIGS = ('signed', 'unsigned')
W_SIGNERS = ('ok', 'fail')


def layouts_for(tier):
    return LAYOUTS if tier == 'quick' else LAYOUTS + ('nested_bz2', 'nested_xz')


def variants_for(tier):
    return (0,) if tier == 'quick' else (0, 1, 2)


def origs_for(iface):
    return ORIGS_LIB if iface == 'lib' else ORIGS_CLI


def signers_for(backend):
    return SIGNERS_SCRIPTED if backend == 'scripted' else SIGNERS_REAL


def f_signers(backend, iface):
    if backend == 'scripted':
        return F_SIGNERS_SCRIPTED
    return F_SIGNERS_REAL + (F_SIGNERS_REAL_CLI if iface == 'cli' else ())


def f_points(backend, iface):
    """part F: (failing signer, entries of the top-level Manifest's own) minus what part M has already"""
    return [(sg, ex) for sg in f_signers(backend, iface) for ex in EXTRAS
            if not (sg in OLD_FAIL_SIGNERS and ex == 'none')]


def f_tops(iface):
    return F_TOPS_LIB if iface == 'lib' else F_TOPS_CLI


def f_dims(tier):
    """-> (layouts, contents, key ids) of part F"""
    if tier == 'quick':
        return ('flat', 'nested_gz'), ('escapes',), (False,)
    return layouts_for(tier), CONTENTS, KEYIDS


def f_pairs(tier):
    return tuple(p for p in F_PAIRS if p[0] != 'signed_by_gemato') if tier == 'quick' else F_PAIRS


def m_followup(tier, contents):
    """Is the follow-up update run after a signing failure in part M?  (parts W and F: always)"""
    return tier != 'quick' or contents == 'escapes'


H_KEYS = (False, True, 'B')                # default key, explicit key id A, explicit key id B
H_REQS = (('signed', None), ('unsigned', True))             # (original state, sign option): a signature is required
H_TREES = (('flat', 'plain'), ('nested_gz', 'escapes'))     # (layout, contents) of save 1, save 2: different trees


def h_dims(tier, backend):
    """-> (signers of save 1, layouts of save 2, kinds of change) of part H"""
    if tier == 'quick':
        return ('ok',), (H_TREES[1][0],), ('edit',)
    return (('ok', 'fail', 'killed_partial') if backend == 'scripted' else ('ok', 'fail'),
            ('flat', 'nested_gz', 'sibling'), CHANGES)


def h_cases(spec, tier, seed):
    _h, backend, k1, k2, if1, if2 = spec
    signers1, layouts2, changes = h_dims(tier, backend)
    for (o1, s1), (o2, s2), sg1, la2, ch1, ch2 in itertools.product(H_REQS, H_REQS, signers1, layouts2, changes, changes):
        common = {'backend': backend, 'seed': seed, 'variant': 0, 'top': TOP, 'wm': None}
        st1 = dict(common, layout=H_TREES[0][0], contents=H_TREES[0][1], sign=s1, iface=if1, orig=o1, keyid=k1,
                   signer=sg1, change=ch1)
        st2 = dict(common, layout=la2, contents=H_TREES[1][1], sign=s2, iface=if2, orig=o2, keyid=k2,
                   signer='ok', change=ch2)
        yield {'backend': backend, 'seed': seed, 'history': [st1, st2]}


def h_count(tier, backend):
    signers1, layouts2, changes = h_dims(tier, backend)
    return (len(H_KEYS) ** 2 * len(IFACES) ** 2 * len(H_REQS) ** 2 * len(signers1) * len(layouts2) * len(changes) ** 2)


def shards(tier, seed):
    out = []
    for be in ('real', 'scripted'):
        for k1, k2, if1, if2 in itertools.product(H_KEYS, H_KEYS, IFACES, IFACES):
            out.append(('H', be, k1, k2, if1, if2))
        for la, co, sg, ifc, va in itertools.product(layouts_for(tier), CONTENTS, SIGNS, IFACES, variants_for(tier)):
            out.append(('M', be, la, co, sg, ifc, va))
        for ifc in IFACES:
            for (top, wm), sg in itertools.product(W_TOPWM_LIB if ifc == 'lib' else W_TOPWM_CLI, SIGNS):
                out.append(('W', be, top, wm, sg, ifc, 0))
        for ifc in IFACES:
            for (sg, ex), top, la in itertools.product(f_points(be, ifc), f_tops(ifc), f_dims(tier)[0]):
                out.append(('F', be, sg, ex, top, ifc, la))
    # interleave so that the real-gpg shards (one shared agent) are spread over the run
    a = [s for s in out if s[1] == 'real']
    b = [s for s in out if s[1] != 'real']
    mixed = []
    while a or b:
        if a:
            mixed.append(a.pop(0))
        if b:
            mixed.append(b.pop(0))
    return mixed


def shard_cases(spec, tier, seed):
    if spec[0] == 'H':
        yield from h_cases(spec, tier, seed)
        return
    if spec[0] == 'M':
        _m, backend, la, co, sg, ifc, va = spec
        for orig, kid, signer, change in itertools.product(origs_for(ifc), KEYIDS, signers_for(backend), CHANGES):
            yield {'backend': backend, 'layout': la, 'contents': co, 'sign': sg, 'iface': ifc, 'orig': orig,
                   'keyid': kid, 'signer': signer, 'change': change, 'seed': seed, 'variant': va,
                   'top': TOP, 'wm': None, 'no_followup': not m_followup(tier, co)}
        return
    if spec[0] == 'F':
        _f, backend, signer, ex, top, ifc, la = spec
        _las, cos, kids = f_dims(tier)
        for (orig, sg), co, kid, change in itertools.product(f_pairs(tier), cos, kids, CHANGES):
            yield {'backend': backend, 'layout': la, 'contents': co, 'sign': sg, 'iface': ifc, 'orig': orig,
                   'keyid': kid, 'signer': signer, 'change': change, 'seed': seed, 'variant': 0,
                   'top': top, 'wm': None, 'extras': ex}
        return
    _w, backend, top, wm, sg, ifc, va = spec
    kids = (False,) if tier == 'quick' else KEYIDS
    cos = ('escapes',) if tier == 'quick' else CONTENTS
    for la, co, orig, kid, signer, change in itertools.product(W_LAYOUTS, cos, W_ORIGS, kids, W_SIGNERS, CHANGES):
        yield {'backend': backend, 'layout': la, 'contents': co, 'sign': sg, 'iface': ifc, 'orig': orig,
               'keyid': kid, 'signer': signer, 'change': change, 'seed': seed, 'variant': va,
               'top': top, 'wm': wm}


def expected_case_count(tier):
    n = 0
    for be in ('scripted', 'real'):
        n += h_count(tier, be)
        for ifc in IFACES:
            n += (len(layouts_for(tier)) * len(CONTENTS) * len(SIGNS) * len(variants_for(tier)) * len(origs_for(ifc))
                  * len(KEYIDS) * len(signers_for(be)) * len(CHANGES))
            n += (len(W_TOPWM_LIB if ifc == 'lib' else W_TOPWM_CLI) * len(SIGNS) * len(W_LAYOUTS)
                  * (1 if tier == 'quick' else len(CONTENTS)) * len(W_ORIGS) * (1 if tier == 'quick' else len(KEYIDS))
                  * len(W_SIGNERS) * len(CHANGES))
            las, cos, kids = f_dims(tier)
            n += (len(f_points(be, ifc)) * len(f_tops(ifc)) * len(f_pairs(tier)) * len(las) * len(cos) * len(kids)
                  * len(CHANGES))
    return n


SAMPLE_DESCS = {
    ('scripted', 'unset', 'signed', 'explicit', 'ok', 'nested_gz', 'dashy', 'edit', 'lib', 'Manifest', None, 0, 'none'),
    ('scripted', 'on', 'unsigned', 'default', 'fail', 'sibling', 'escapes', 'forced', 'cli', 'Manifest', None, 0, 'none'),
    ('real', 'unset', 'signed', 'default', 'ok', 'nested', 'escapes', 'edit', 'cli', 'Manifest', None, 0, 'none'),
    ('real', 'on', 'unsigned', 'explicit', 'fail', 'flat', 'plain', 'edit', 'lib', 'Manifest', None, 0, 'none'),
    ('scripted', 'unset', 'signed', 'default', 'ok', 'nested', 'escapes', 'edit', 'lib', 'Manifest.gz', BIG, 0, 'none'),
    ('scripted', 'unset', 'signed', 'default', 'badkey', 'nested_gz', 'escapes', 'edit', 'cli', 'Manifest', None, 0, 'own'),
    ('real', 'on', 'unsigned', 'default', 'fail', 'flat', 'escapes', 'forced', 'lib', 'Manifest.gz', None, 0, 'own'),
}


def run_shard(spec, tier, seed, scratch):
    stats = Stats()
    homes = H['homes']
    if spec[1] == 'real' and not homes:
        raise RuntimeError('C14 setup() did not run: no gpg homes')
    for case in shard_cases(spec, tier, seed):
        vs = check_case(case, scratch, homes, stats, isolate='unless_in_order' if tier == 'quick' else 'always')
        for x in vs:
            stats.violation(x['sig'], x['case'], x['message'])
    return stats


def replay(case, scratch):
    # in a pristine process of its own; for the real back end with GnuPG homes of its own
    return check_case(case, scratch, None, isolate='always', own_homes=True)


def finish(total, tier):
    errs = []
    c = total.counters
    oc = total.outcomes
    want = expected_case_count(tier)
    if len(total.states) != want or total.evaluations != want:
        errs.append(f'enumerated {total.evaluations} executions / {len(total.states)} distinct configurations, '
                    f'the stated product has {want}')

    def seen(*parts):
        return sum(n for k, n in oc.items() if not k.startswith(('followup:', 'history:')) and all(p in k for p in parts))
    for be in ('scripted', 'real'):
        if not c.get(f'{be}_signer_input_equals_written'):
            errs.append(f'vacuity: counter {be}_signer_input_equals_written is zero')
        for ifc in IFACES:
            for w, g in (('signed', 'signed'), ('plain', 'plain')):
                if not seen(f'{be}/{ifc}/saved/want={w}/got={g}'):
                    errs.append(f'vacuity: no {be}/{ifc} save produced a {g} top-level Manifest as required')
            if not seen(f'{be}/{ifc}/signfail:fail/'):
                errs.append(f'vacuity: no {be}/{ifc} run with a signer that exits non-zero was judged')
        for k in ('signature_verified', 'reload_verified', 'cleartext_equals_written', 'key_explicit_confirmed',
                  'key_default_confirmed'):
            if not c.get(f'{be}_{k}'):
                errs.append(f'vacuity: counter {be}_{k} is zero')
    for ifc in IFACES:
        for sg in ('missing', 'missing_sign'):
            if not seen(f'scripted/{ifc}/signfail:{sg}/'):
                errs.append(f'vacuity: no scripted/{ifc} run with signer class {sg} was judged')
    if not seen('/signer=fail'):
        errs.append('vacuity: no plain save with a broken signer standing by')
    for k in ('signfail_expected_class:OpenPGPSigningFailure', 'signfail_expected_class:OpenPGPNoImplementation',
              'signfail_cli_exit1', 'sub_manifests_checked', 'sub_manifests_checked_compressed', 'tree_described'):
        if not c.get(k):
            errs.append(f'vacuity: counter {k} is zero')
    if not c.get('top_level_renamed'):
        errs.append('vacuity: no save renamed the (compressed) top-level Manifest')
    if c.get('prelim_failed'):
        errs.append(f'{c["prelim_failed"]} preliminary signing runs (orig=signed_by_gemato) failed: not judged')
    if c.get('unexpected_abort'):
        errs.append(f'{c["unexpected_abort"]} runs that needed no signature or had a working signer did not '
                    f'complete (see outcome classes */unexpected_abort/*): not judged')
    if total.compared < total.evaluations // 2:
        errs.append('vacuity: most cases are DONT_CARE')
    n_hist = c.get('not_in_order_only_after_earlier_cases_in_the_same_process')
    if n_hist:
        ex = [n for n in total.notes if n.startswith('HISTORY-DEPENDENT')][:1]
        errs.append(f'{n_hist} cases were in order in a fresh process but NOT in order when run after other cases in the '
                    f'same worker process: gemato carries state from one operation to the next in a way that matters to '
                    f'C14; such histories are judged reproducibly only within the bound of part H / the follow-up runs. '
                    f'{ex[0] if ex else ""}')
    # ---- part H: histories of two saves in one process
    h_want = sum(h_count(tier, be) for be in ('scripted', 'real'))
    if c.get('H:histories', 0) != h_want:
        errs.append(f'part H: {c.get("H:histories", 0)} histories run, the stated product has {h_want}')
    h_classes = {k for k in oc if k.startswith('history:s2:')}
    if len(h_classes) < 2:
        errs.append(f'vacuity: part H produced {len(h_classes)} outcome class(es) for the second save')
    if not any(str(v['sig'].get('check', '')).startswith('history:') for v in total.violations):
        # on code whose saves do not influence one another every save of every key pair must have been confirmed
        for be in ('scripted', 'real'):
            for k1, k2 in itertools.product(H_KEYS, H_KEYS):
                keys = '->'.join(key_name({'keyid': k}) for k in (k1, k2))
                for n in (1, 2):
                    if not c.get(f'H:{be}:save{n}_signed_by_requested_key_alone:{keys}'):
                        errs.append(f'vacuity: part H, {be}, key ids {keys}: save no. {n} never confirmed as signed by '
                                    f'the requested key alone')
        if c.get('H:all_saves_in_order', 0) < h_want // 2:
            errs.append(f'vacuity: part H: only {c.get("H:all_saves_in_order", 0)} of {h_want} histories judged in order')
    # ---- signing failures: state left on disk and follow-up
    for be in ('scripted', 'real'):
        for ifc in IFACES:
            for sg in f_signers(be, ifc):
                if not seen(f'{be}/{ifc}/signfail:{sg}/'):
                    errs.append(f'vacuity: no {be}/{ifc} run with signer class {sg} was judged')
            for fc in sorted({FAIL_CLASS[sg] for sg in f_signers(be, ifc)}):
                if not c.get(f'signfail_state_judged:{be}/{ifc}/{fc}'):
                    errs.append(f'vacuity: state after a {be}/{ifc} signing failure of class {fc} never judged')
    for k in ('signed', 'unsigned', 'top=Manifest', 'top=Manifest.gz', 'flat', 'nested', 'extras=none', 'extras=own'):
        if not c.get('signfail_state_judged:' + k):
            errs.append(f'vacuity: no state after a signing failure judged for {k}')
    if not c.get('followup_runs'):
        errs.append('vacuity: no follow-up update after a signing failure was run')
    new_checks = ('signed_top_level_destroyed_by_failed_signing', 'unsigned_top_level_written_on_signing_failure',
                  'followup_after_signing_failure')
    if not any(v['sig'].get('check') in new_checks for v in total.violations):
        # on code that keeps the top-level Manifest the positive outcomes must all have been seen
        for k in ('signfail_state_ok:untouched', 'followup_ok', 'followup:scripted_reload_verified',
                  'followup:real_reload_verified', 'followup:tree_described',
                  'followup:scripted_key_explicit_confirmed', 'followup:scripted_key_default_confirmed'):
            if not c.get(k):
                errs.append(f'vacuity: counter {k} is zero')
        for be in ('scripted', 'real'):
            for ifc in IFACES:
                if not c.get(f'followup_ok:{be}/{ifc}'):
                    errs.append(f'vacuity: no {be}/{ifc} follow-up update was judged and found in order')
        for k in ('followup_missing_after_good_state', 'followup_undecided_after_good_state'):
            if c.get(k):
                errs.append(f'{c[k]} follow-up updates after a signing failure that left the top-level Manifest intact '
                            f'could not be run or judged ({k}; see outcome classes followup:*)')
    after = {k.split(':', 1)[1]: n for k, n in c.items() if k.startswith('signfail_top_after:')}
    if after:
        total.notes.append(
            f'after a signing failure the top-level Manifest file was left {after} (runs by state; every state other '
            'than "untouched" / still signed is judged a violation, see ASSUMPTIONS); sub-Manifests saved before the '
            'top-level Manifest keep their new content either way (not judged here)')
    if c.get('followup_stopped_with_error_after_watermark_renames'):
        total.notes.append(
            f'{c["followup_stopped_with_error_after_watermark_renames"]} follow-up updates (part W: compress watermark '
            'given) did not complete: the save that failed to sign had already renamed sub-Manifests, the next update '
            'stops with an error on the stale MANIFEST entries (see outcome classes followup:*/unexpected_abort/*); '
            'nothing unsigned is written, C14 does not decide these')
    return errs


def extra_evidence(total, tier):
    # last hook of the runner before it removes the scratch base: stop the agents now
    _atexit_cleanup()
    after = {k.split(':', 1)[1]: n for k, n in total.counters.items() if k.startswith('signfail_top_after:')}
    return {
        'states_meaning': 'distinct configuration tuples (backend, sign, original state, key id, signer, layout, '
                          'contents, change, interface, top-level name, compress watermark, variant); part H: pairs '
                          'of such tuples (one history = one state, one execution, two or more transitions)',
        'product_size': expected_case_count(tier),
        'part_H_histories': total.counters.get('H:histories', 0),
        'part_H_histories_all_saves_in_order': total.counters.get('H:all_saves_in_order', 0),
        'part_M_F_runs_signer_terminated_by_signal': sum(
            n for k, n in total.counters.items()
            if k.startswith('signfail_state_judged:scripted/') and 'terminated_by_signal' in k),
        'scripted_cases': total.counters.get('cases_scripted', 0),
        'real_gpg_cases': total.counters.get('cases_real', 0),
        'top_level_after_reported_signing_failure': after,
    }
