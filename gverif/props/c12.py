"""C12 — update is idempotent and, with sorting, canonical.

Idempotence: for every prior Manifest state x edit x option set x interface the
real update is run, then the identical update is run again under the
write-audit seam: no write event, every Manifest keeps bytes and st_mtime_ns.

Canonicity (sort on, <= 1 Manifest per directory): the same update is run under
EVERY permutation of the scandir order of every directory (full product) and
under EVERY permutation of the entry lines of each pre-existing Manifest; every
Manifest that gets written must come out byte-identical in all runs.
"""

import itertools
import os

from gverif import gem, scen, seams
from gverif.common import fresh_root
from gverif.evidence import Stats
from gverif.props import c03
from gverif.treemodel import Tree, comp_of, compress, decompress, snapshot

PID = 'C12'
LEVEL = 'model_checking'
RULE = ('idempotence: prior state x edit x options x interface, update run twice; canonicity: prior state (<=1 '
        'Manifest per directory) x edit x options with sort=True x {every product of per-directory scandir '
        'permutations} + {every permutation of the lines of every pre-existing Manifest} + their full product on '
        'the flat two-level priors; case = that tuple; non-trivial = a non-identity permutation or a second run')
ASSUMPTIONS = [
    'os.scandir order seam (monkeypatch) stands for the filesystem enumeration order; os.walk is the only consumer',
    'excluded with reason: --force-rewrite for idempotence; priors with several Manifests per directory, with '
    'type-differing duplicate entries, or hit by the known equal-duplicate defect for canonicity',
    'a Manifest that a run does not write is not compared (the statement speaks of written Manifests)',
]

TOP = scen.TOP
CANON_PRIORS = ['absent', 'flat', 'flat_otherhashes', 'flat_rich', 'nested_None_None', 'nested_gz_xz',
                'nested_bz2_None', 'nested_ancestor', 'dup_sub', 'dup_disjoint', 'unreg_valid_only',
                'unreg_valid_gz', 'ignore_dir', 'tags_rich', 'prunable_pairs',
                'escaped_neighbours_unlisted', 'escaped_neighbours_listed', 'hostile_names_unlisted']
IDEM_SKIP_FORCE = True


def is_manifest(p):
    return os.path.basename(p).startswith('Manifest')


def manifests_of(snap):
    return {p: v for p, v in snap.items() if v[0] == 'f' and is_manifest(p)}


# ------------------------------------------------------------ idempotence

def check_idem(case, scratch, stats=None):
    root = fresh_root(scratch)
    Tree.from_json(case['tree']).write(root)
    edit, upath, o, iface = case['edit'], case['upath'], case['opts'], case['iface']
    c03.apply_edit_disk(root, edit)
    create = not os.path.exists(os.path.join(root, TOP))
    if create and upath:
        return []
    if upath and not os.path.isdir(os.path.join(root, upath)):
        return []
    if iface == 'cli' and o['sort'] and o['profile'] == 'default':
        o = dict(o, sort=False)
    r1 = c03.run_update(root, iface, upath, o, create)
    if stats is not None:
        stats.evaluations += 1
        stats.transitions += 1
    if not (r1['kind'] == 'ret' and r1['value'] == 0):
        if stats is not None:
            stats.dontcare['first update did not complete: ' + gem.brief(r1)] += 1
        return []
    s1 = snapshot(root)
    with seams.write_audit(root) as events:
        r2 = c03.run_update(root, iface, upath, o, False)
    events = [(e, p[len(root) + 1:]) for e, p in events]
    s2 = snapshot(root)
    if stats is not None:
        stats.transitions += 1
        stats.compared += 1
        stats.outcomes[f'idem/{iface}/{gem.brief(r2)}/{"rewrote" if events else "quiet"}'] += 1
    out = []

    def viol(check, msg, **extra):
        sig = {'check': check, 'part': 'idempotence', 'prior': case['prior'], 'iface': iface}
        sig.update(extra)
        out.append({'sig': sig, 'case': case, 'message': f'{check}: {msg} (prior={case["prior"]} edit={edit} '
                    f'target={upath!r} opts={o} iface={iface})'})
    if not (r2['kind'] == 'ret' and r2['value'] == 0):
        viol('second_update_failed', gem.brief(r2))
        return out
    changed = sorted(p for p in set(s1) | set(s2) if s1.get(p) != s2.get(p))
    if events or changed:
        viol('second_update_rewrites', f'write events {events[:4]}, changed {changed}',
             files=sorted({p for _e, p in events} | set(changed)))
    return out


# ------------------------------------------------------------ canonicity

def permute_manifest(data, name, perm):
    c = comp_of(os.path.basename(name))
    lines = decompress(data, c).decode('utf8').splitlines()
    if sorted(perm) != list(range(len(lines))):
        return None
    return compress(''.join(lines[i] + '\n' for i in perm).encode('utf8'), c)


def run_canon(case, scratch, dir_orders, line_perms):
    """-> (obs, {manifest path: bytes} of the Manifests this run wrote)"""
    root = fresh_root(scratch)
    tree = Tree.from_json(case['tree'])
    for mp, perm in line_perms.items():
        nd = permute_manifest(tree.files[mp], mp, perm)
        tree.files[mp] = nd
    tree.write(root)
    c03.apply_edit_disk(root, case['edit'])
    create = not os.path.exists(os.path.join(root, TOP))
    o = case['opts']

    def order(d, names):
        rel = os.path.relpath(d, root)
        rel = '' if rel == '.' else rel
        perm = dir_orders.get(rel)
        if perm is None or len(perm) != len(names):
            return names
        return [names[i] for i in perm]
    s0 = snapshot(root)
    with seams.scandir_order(order), seams.write_audit(root) as events, seams.fake_time():
        r = c03.run_update(root, 'lib', '', o, create)
    s1 = snapshot(root)
    written = {p[len(root) + 1:] for _e, p in events}
    out = {p: v[1] for p, v in manifests_of(s1).items() if p in written or s0.get(p) != v}
    return r, out, s1


def dir_listing(tree_json, edit, scratch):
    """names per directory as the update will see them"""
    root = fresh_root(scratch, 'probe')
    Tree.from_json(tree_json).write(root)
    c03.apply_edit_disk(root, edit)
    out = {}
    for dp, dn, fn in os.walk(root):
        rel = os.path.relpath(dp, root)
        out['' if rel == '.' else rel] = sorted(dn + fn)
    return out


def check_canon(case, scratch, stats=None):
    """case carries explicit 'variants': list of (dir_orders, line_perms)."""
    refs = {}      # bytes of the Manifests a run left unwritten -> (written bytes, orders) of the first such run
    out = []
    for dir_orders, line_perms in case['variants']:
        dir_orders = {k: list(v) for k, v in dir_orders.items()}
        line_perms = {k: list(v) for k, v in line_perms.items()}
        r, written, snap = run_canon(case, scratch, dir_orders, line_perms)
        if stats is not None:
            stats.evaluations += 1
            stats.transitions += 1
        if not (r['kind'] == 'ret' and r['value'] == 0):
            if stats is not None:
                stats.dontcare['update did not complete: ' + gem.brief(r)] += 1
            continue
        # Manifests this run did not write are input (tree content) for the ones it
        # did write - a parent records the digest of an unwritten child - so runs
        # are only compared when those inputs are byte-identical
        unwritten = tuple(sorted((p, v[1]) for p, v in manifests_of(snap).items() if p not in written))
        if stats is not None:
            stats.compared += 1
            stats.outcomes[f'canon/written={len(written)}/unwritten={len(unwritten)}'] += 1
        ref = refs.setdefault(unwritten, (dict(written), dir_orders, line_perms))
        if ref[1] is dir_orders and ref[2] is line_perms:
            continue
        for p, b in written.items():
            if p in ref[0]:
                if ref[0][p] != b:
                    c = dict(case, variants=[(ref[1], ref[2]), (dir_orders, line_perms)])
                    out.append({'sig': {'check': 'output_depends_on_order', 'part': 'canonicity',
                                        'prior': case['prior'],
                                        'varied': 'scandir' if dir_orders else 'entry_lines'},
                                'case': c,
                                'message': f'output_depends_on_order: {p!r} differs between scandir orders '
                                f'{ref[1]} / {dir_orders} and line orders {ref[2]} / {line_perms} '
                                f'(prior={case["prior"]} edit={case["edit"]} opts={case["opts"]})'})
                    return out
            else:
                ref[0][p] = b
    return out


def replay(case, scratch):
    case = dict(case)
    case['opts'] = dict(case['opts'], hashes=tuple(case['opts']['hashes']) if case['opts']['hashes'] is not None else None)
    if case['part'] == 'idempotence':
        return check_idem(case, scratch)
    return check_canon(case, scratch)


CANON_OPTS = [
    dict(hashes=('SHA1',), sort=True, force=False, wm=None, fmt=None, profile='default'),
    # the union of the hash sets of duplicate entries (dup_disjoint, dup_parent_child): the merged entry counts as unchanged
    dict(hashes=('MD5', 'SHA1'), sort=True, force=False, wm=None, fmt=None, profile='default'),
    dict(hashes=('SHA1',), sort=True, force=True, wm=0, fmt='gz', profile='default'),
    dict(hashes=None, sort=None, force=True, wm=None, fmt=None, profile='ebuild'),
]
CANON_EDITS = ['none', 'alter_size', 'add', 'delete', 'add_dir']


def shards(tier, seed):
    # 'unreg_corrupt_gz' (a corrupt compressed stream named Manifest.gz) is outside C03/C12, see DESIGN §C03
    out = [('idem', name) for name, _f in scen.priors() if name != 'unreg_corrupt_gz']
    for name in CANON_PRIORS:
        for edit in CANON_EDITS:
            out.append(('canon', name, edit))
    return out


def run_shard(spec, tier, seed, scratch):
    stats = Stats()
    priors = dict(scen.priors())
    if spec[0] == 'idem':
        name = spec[1]
        tj = priors[name]().build().to_json()
        opts = c03.OPTS_QUICK if tier == 'quick' else c03.opts_all()
        for edit, upath, (oi, o), iface in itertools.product(scen.EDITS, c03.TARGETS, enumerate(opts), ('lib', 'cli')):
            if o['force']:
                continue
            if tier == 'quick' and iface == 'cli' and oi not in (0, 6):
                continue
            case = {'part': 'idempotence', 'tree': tj, 'prior': name, 'edit': edit, 'upath': upath,
                    'opts': o, 'iface': iface}
            n0 = stats.compared
            vs = check_idem(case, scratch, stats)
            stats.case((name, edit, upath, oi, iface), nontrivial=stats.compared > n0)
            for x in vs:
                stats.violation(x['sig'], x['case'], x['message'])
        return stats
    _c, name, edit = spec
    tj = priors[name]().build().to_json()
    listing = dir_listing(tj, edit, scratch)
    # all products of per-directory permutations
    dirs = sorted(listing)
    maxn = 4 if tier == 'quick' else 6     # lines of a pre-existing Manifest
    maxd = 6                                # names in a directory

    def perms(n):
        if n <= maxd:
            return list(itertools.permutations(range(n)))
        base = list(range(n))
        out = [base[i:] + base[:i] for i in range(n)] + [base[::-1]]
        for i in range(n - 1):
            t = list(base)
            t[i], t[i + 1] = t[i + 1], t[i]
            out.append(t)
        stats.notes.append(f'directories with {n} > {maxd} names: rotations, reversal and adjacent '
                           'transpositions instead of all permutations')
        return [tuple(x) for x in out]
    perms_per_dir = [perms(len(listing[d])) for d in dirs]
    manifests = sorted(p for p in tj['files'] if is_manifest(p))
    line_counts = {}
    for mp in manifests:
        n = len(decompress(tj['files'][mp], comp_of(os.path.basename(mp))).decode('utf8').splitlines())
        line_counts[mp] = n
    for oi, o in enumerate(CANON_OPTS):
        if tier == 'quick' and oi == 3 and name not in ('flat', 'absent', 'nested_None_None'):
            continue
        if tier == 'quick' and oi == 1 and not name.startswith('dup_'):
            continue
        variants = [({}, {})]
        total = 1
        for pp in perms_per_dir:
            total *= len(pp)
        if total <= (600 if tier == 'quick' else 3000):
            for combo in itertools.product(*perms_per_dir):
                variants.append(({d: list(p) for d, p in zip(dirs, combo)}, {}))
        else:
            # too large a product: every permutation of every single directory, others sorted
            for d, pp in zip(dirs, perms_per_dir):
                for p in pp:
                    variants.append(({d: list(p)}, {}))
            stats.notes.append(f'{name}/{edit}: scandir product {total} reduced to per-directory permutations')
        # every permutation of the lines of every pre-existing Manifest (<= 5 lines: all; more: rotations+reversal)
        for mp in manifests:
            n = line_counts[mp]
            if n <= maxn:
                lp = list(itertools.permutations(range(n)))
            else:
                base = list(range(n))
                lp = [base[i:] + base[:i] for i in range(n)] + [base[::-1]]
                stats.notes.append(f'{name}: {mp} has {n} lines: rotations and reversal only')
            for p in lp:
                variants.append(({}, {mp: list(p)}))
        # full product scandir x lines for the top-level Manifest on small priors
        if name in ('flat', 'nested_None_None') and oi == 0 and line_counts.get(TOP, 9) <= 4:
            top_dir_perms = perms_per_dir[dirs.index('')]
            for dp in top_dir_perms:
                for p in itertools.permutations(range(line_counts[TOP])):
                    variants.append(({'': list(dp)}, {TOP: list(p)}))
        case = {'part': 'canonicity', 'tree': tj, 'prior': name, 'edit': edit, 'opts': o, 'variants': variants}
        n0 = stats.compared
        vs = check_canon(case, scratch, stats)
        stats.case((name, edit, oi), nontrivial=True)
        stats.counters['canon_variants'] += len(variants)
        stats.counters['canon_nontrivial_runs'] += stats.compared - n0
        if len(stats.samples) < 1:
            stats.sample({'prior': name, 'edit': edit, 'opts': o, 'n_variants': len(variants),
                          'example_variant': variants[min(5, len(variants) - 1)]})
        for x in vs:
            stats.violation(x['sig'], x['case'], x['message'])
    return stats


def finish(total, tier):
    errs = []
    if not any(k.startswith('idem/') and k.endswith('quiet') for k in total.outcomes):
        errs.append('vacuity: no quiet second update observed')
    if total.counters.get('canon_nontrivial_runs', 0) < 1000:
        errs.append('vacuity: fewer than 1000 permuted update runs compared')
    if not any(k.startswith('canon/written=') and not k.startswith('canon/written=0') for k in total.outcomes):
        errs.append('vacuity: canonicity runs never wrote a Manifest')
    return errs
