"""C06 — I/O errors never turn into success or into 'file absent'.

Fault enumeration: for every tree of a corpus and every operation (library and
CLI verification, single-path verification, the scan phase of update through
library and CLI) the fault-free run is recorded by the Faults seam, which numbers
every environment call (os.open / os.stat / os.fstat / os.scandir and each
iteration step / DirEntry.is_dir on symlinks / open() and each raw read); then
the run is repeated once for EVERY call index k x EVERY errno with that single
call failing (deviation bound 1; thorough: all pairs on the smallest trees), and
once per object with every call touching the object failing (persistent).
"""

import errno
import itertools
import os

from gverif import gem, refverify, scen, seams
from gverif.common import fresh_root
from gverif.evidence import Stats
from gverif.scen import Scenario, _F, H1
from gverif.treemodel import MSpec, Tree, snapshot

PID = 'C06'
LEVEL = 'fault_enumeration'
RULE = ('corpus tree x operation x (every environment call index k of the fault-free run x every errno | every '
        'object persistently failing); a case = (tree, operation, fault placement, errno); distinct = that tuple; '
        'non-trivial = the fault fired on an object outside hidden/IGNOREd subtrees')
ASSUMPTIONS = [
    'fault seam = monkeypatched os.open/os.stat/os.fstat/os.scandir/builtins.open (+ raw read proxy) that only '
    'intercepts paths below the tree root; the kernel is not involved',
    'ENOENT is excluded (the statement excludes it); for ENOTDIR - the other errno that speaks about existence - a '
    'mismatch reporting a listed file as missing is accepted, success is not; faults during save are out of scope',
    'faults on objects inside hidden or IGNOREd subtrees are DONT_CARE (need not be read)',
]

TOP = scen.TOP
# ENOTDIR stays in the alphabet, but with a weaker demand: reporting a LISTED file as missing is an acceptable mismatch
# for it (ENOTDIR means the path does not exist), reporting success is not
ERRNOS = [errno.EACCES, errno.EPERM, errno.EIO, errno.ENOMEM, errno.ELOOP, errno.ENOTDIR, errno.EMFILE, errno.ESTALE,
          errno.EBUSY]


def corpus():
    pri = dict(scen.priors())
    out = {}
    for name in ('flat', 'flat_rich', 'nested_gz_xz', 'nested_None_None', 'tags_rich', 'two_in_dir',
                 'samedir_chain_gz', 'unreg_valid_only', 'unreg_valid_gz', 'unreg_valid_dup'):
        out[name] = pri[name]().build()

    def links():
        B = scen.BASE_FILES
        sc = Scenario(B, [MSpec(TOP, [_F(p) for p in sorted(B)] + [
            ('E', ('DATA', 'lf', 4, (('SHA1', 'aa8c41330509455ee5679d04ed41535d280d9a89'),))),
            ('E', ('DATA', 'ld/f1', 3, (('SHA1', 'fe05bcdcdc4928012781a5f1a2a77cbb5398e106'),))),
            ('E', ('DATA', 'ld/e/f2', 4, (('SHA1', 'ae73cad7048986423902bfb35b0725445e57f22d'),))),
            ('F', 'DATA', '.hidden_listed', H1)])],
            links={'lf': 'f0', 'ld': 'd'}, raw={'.hid/x': b'h'})
        sc.tree.files['.hidden_listed'] = b'hl'
        return sc.build()
    out['links_hidden'] = links()
    # consistent trees plus one stray / one altered listed file (verification must fail anyway; a fault on
    # the offending object must not turn the failure into success)
    t = pri['flat']().build()
    t.files['d/stray'] = b'stray'
    out['flat+stray'] = t
    t = pri['nested_None_None']().build()
    t.files['d/e/stray'] = b'stray'
    out['nested+stray'] = t
    return out


OPS = ['lib_verify', 'cli_verify', 'lib_verify_sub', 'assert_path', 'lib_update_scan', 'cli_update',
       'lib_verify_keepgoing', 'cli_verify_k']


def run_op(root, op, F=None):
    if op == 'lib_verify':
        return gem.lib_verify(root, TOP, '')
    if op == 'lib_verify_sub':
        return gem.lib_verify(root, TOP, 'd')
    if op == 'cli_verify':
        return gem.cli(['verify', root])
    if op == 'cli_verify_k':
        return gem.cli(['verify', '-k', root])
    if op == 'lib_verify_keepgoing':
        return gem.lib_verify(root, TOP, '', fail_handler=lambda e: False)
    if op == 'assert_path':
        return gem.call(lambda: gem.loader(root, TOP).assert_path_verifies('d/f1'))
    if op == 'lib_update_scan':
        def go():
            m = gem.loader(root, TOP, hashes=['SHA1'])
            m.update_entries_for_directory('')
            return 'scanned'
        return gem.call(go)
    if op == 'cli_update':
        # only the scan phase is subject to faults (DESIGN §C06): the seam is switched
        # off while save_manifests runs
        from gemato.recursiveloader import ManifestRecursiveLoader as L
        orig = L.save_manifests

        def save(self, *a, **kw):
            if F is not None:
                F.enabled = False
            try:
                return orig(self, *a, **kw)
            finally:
                if F is not None:
                    F.enabled = True
        L.save_manifests = save
        try:
            return gem.cli(['update', '-H', 'SHA1', root])
        finally:
            L.save_manifests = orig
    raise ValueError(op)


def success(op, o):
    if op.startswith('cli'):
        return o.get('exit') == 0
    return o['kind'] == 'ret' and o['value'] in (True, None, 'scanned')


def ignored_or_hidden(rel, ignores):
    comps = rel.split('/') if rel else []
    if any(c.startswith('.') for c in comps):
        return True
    return any(refverify.comp_prefix(rel, ig) for ig in ignores)


def nfds():
    return len(os.listdir('/proc/self/fd'))


def check_case(case, scratch, stats=None):
    root = fresh_root(scratch)
    Tree.from_json(case['tree']).write(root)
    op = case['op']
    v = refverify.expected_verify(root, TOP, '')
    ignores = set(v.ignores)
    before = snapshot(root)
    fd0 = nfds()
    kw = {}
    if case.get('persistent') is not None:
        kw['persistent_path'] = case['persistent']
    else:
        fa = case['fail_at']
        kw['fail_at'] = fa if isinstance(fa, int) else set(fa)
    with seams.Faults(root, err=case['errno'], **kw) as F:
        o = run_op(root, op, F)
    fd1 = nfds()
    after = snapshot(root)
    out = []
    if stats is not None:
        stats.evaluations += 1
        stats.transitions += 1
    if not F.fired:
        if stats is not None:
            stats.dontcare['fault never reached'] += 1
        return out, F
    objs = [rel for _i, _k, rel in F.fired]
    kinds = sorted({k for _i, k, _r in F.fired})
    needed = [r for r in objs if not ignored_or_hidden(r, ignores)]

    def viol(check, msg):
        out.append({'sig': {'check': check, 'op': op, 'call': kinds[0], 'errno': errno.errorcode[case['errno']]},
                    'case': case,
                    'message': f'{check}: {msg} (tree={case["name"]} op={op} fault={F.fired[:2]} '
                    f'errno={errno.errorcode[case["errno"]]} outcome={gem.brief(o)})'})
    if fd1 != fd0:
        viol('descriptor_leak', f'{fd1 - fd0} descriptors still open after the failed run')
    if after != before and op != 'cli_update':
        viol('tree_modified', 'the tree changed although nothing is ever saved by this operation')
    if op == 'cli_update' and after != before and not success(op, o):
        viol('failed_update_wrote', 'update failed with an error but the tree was modified: ' +
             str(sorted(p for p in set(before) | set(after) if before.get(p) != after.get(p))))
    if not needed:
        if stats is not None:
            stats.dontcare['fault on an object in a hidden or IGNOREd subtree'] += 1
        return out, F
    # os.walk() itself swallows an OSError from DirEntry.is_dir() and files the entry under
    # "not a directory"; when the very same object is opened / listed successfully later in the
    # run it WAS inspected and read, so success is legitimate (transient faults only)
    if kinds == ['DirEntry.is_dir'] and case.get('persistent') is None:
        later = {rel for i, (k, rel) in enumerate(F.calls)
                 if k in ('os.open', 'os.scandir') and i > F.fired[-1][0]}
        if all(r in later for r in needed):
            if stats is not None:
                stats.dontcare['transient is_dir() failure absorbed by os.walk; object read successfully afterwards'] += 1
                stats.outcomes[f'{op}/DirEntry.is_dir/absorbed'] += 1
            return out, F
    if stats is not None:
        stats.compared += 1
        stats.outcomes[f'{op}/{kinds[0]}/{gem.brief(o) if not op.startswith("cli") else "exit:%r" % o.get("exit")}'] += 1
    # ENOTDIR is the operating system's way of saying that a path does not exist because one of its components is not a
    # directory: for a LISTED file "reported as missing" is then the proper mismatch (a path beneath something that is
    # a regular file now - C01/C07/C18 require exactly that); only SUCCESS remains forbidden for this errno
    enotdir = case['errno'] == errno.ENOTDIR
    if success(op, o):
        viol('fault_swallowed', f'operation reported success although {needed[:2]} could not be read')
    elif o['kind'] == 'exc' and o.get('class') == 'internal':
        viol('internal_error', f'{o["exc"]} at {o.get("where")}: {o.get("msg")}')
    elif o['kind'] == 'exc' and o['exc'] == 'ManifestMismatch' and not enotdir:
        for d in o.get('diff', []):
            if d[0] == '__exists__' and d[2] is False and os.path.lexists(os.path.join(root, o['path'])):
                viol('treated_as_absent', f'{o["path"]!r} exists but was reported as missing')
    if op.startswith('cli') and not success(op, o) and not enotdir:
        for (lv, _m), info in zip(o.get('log', []), o.get('log_info', [])):
            if lv == 'ERROR' and info and info['exc'] == 'ManifestMismatch' and info['path'] is not None:
                if any(d[0] == '__exists__' and d[2] is False for d in (info['diff'] or [])) and \
                        os.path.lexists(os.path.join(root, info['path'])):
                    viol('treated_as_absent', f'{info["path"]!r} exists but was reported as missing')
    return out, F


def replay(case, scratch):
    return check_case(case, scratch)[0]


def shards(tier, seed):
    out = []
    for name in corpus():
        for op in OPS:
            out.append((name, op, 'transient'))
            out.append((name, op, 'persistent'))
    if tier == 'thorough':
        for op in OPS:
            out.append(('flat', op, 'pairs'))
    return out


def run_shard(spec, tier, seed, scratch):
    stats = Stats()
    name, op, mode = spec
    tree = corpus()[name]
    tj = tree.to_json()
    # fault-free run: count the environment calls
    root = fresh_root(scratch)
    tree.write(root)
    with seams.Faults(root) as F0:
        o0 = run_op(root, op, F0)
    n = len(F0.calls)
    stats.counters['fault_free_calls'] += n
    base_ok = success(op, o0)
    stats.outcomes[f'faultfree/{op}/{"ok" if base_ok else "fails"}'] += 1
    if mode == 'transient':
        for k in range(n):
            kind = F0.calls[k][0]
            errs = ERRNOS if (tier == 'thorough' or kind != 'read') else [errno.EIO, errno.EACCES]
            for e in errs:
                case = {'name': name, 'tree': tj, 'op': op, 'fail_at': k, 'errno': e}
                vs, F = check_case(case, scratch, stats)
                stats.case((name, op, k, e), nontrivial=bool(F.fired))
                if len(stats.samples) < 1 and F.fired and k > 5:
                    stats.sample({'tree': name, 'op': op, 'fault_at_call': k, 'call': F0.calls[k],
                                  'errno': errno.errorcode[e], 'calls_in_fault_free_run': n})
                for x in vs:
                    stats.violation(x['sig'], x['case'], x['message'])
    elif mode == 'persistent':
        objs = sorted({rel for _k, rel in F0.calls})
        for obj in objs:
            for e in (errno.EACCES, errno.EIO, errno.ELOOP):
                case = {'name': name, 'tree': tj, 'op': op, 'persistent': obj, 'errno': e}
                vs, F = check_case(case, scratch, stats)
                stats.case((name, op, 'persistent', obj, e), nontrivial=bool(F.fired))
                for x in vs:
                    stats.violation(x['sig'], x['case'], x['message'])
    else:
        for k1, k2 in itertools.combinations(range(n), 2):
            for e in (errno.EACCES, errno.EIO):
                case = {'name': name, 'tree': tj, 'op': op, 'fail_at': [k1, k2], 'errno': e}
                vs, F = check_case(case, scratch, stats)
                stats.case((name, op, k1, k2, e), nontrivial=len(F.fired) > 1)
                for x in vs:
                    stats.violation(x['sig'], x['case'], x['message'])
    return stats


def finish(total, tier):
    errs = []
    k = ' '.join(total.outcomes)
    for need in ('/os.open/', '/os.stat/', '/os.fstat/', '/os.scandir/', '/scandir.next/', '/read/', '/open/',
                 '/DirEntry.is_dir/'):
        if need not in k:
            errs.append(f'vacuity: no fault placed at a {need.strip("/")} call')
    if total.compared < 2000:
        errs.append('vacuity: fewer than 2000 faulted runs judged')
    return errs
