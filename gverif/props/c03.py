"""C03 — update writes Manifests that describe the tree exactly, and then verify.

For every prior Manifest state of gverif.scen.priors() x tree edit x option
combination x update target (whole tree / each sub-directory) x interface
(library, CLI), and for multi-round histories (edit, update, edit, update …),
the real update+save is run; whenever it completes without error the disk is
re-read with the *reference* parser and must describe the updated directory
exactly (gverif.refverify), every path covered exactly once with the requested
hashes, and a fresh gemato verification must succeed.
"""

import itertools
import os
import shutil

from gemato.profile import get_profile_by_name

from gverif import gem, refverify, scen
from gverif.common import fresh_root
from gverif.evidence import Stats
from gverif.treemodel import Tree

PID = 'C03'
LEVEL = 'model_checking'
RULE = ('prior Manifest state (gverif/scen.py: absent, flat, nested x compression, duplicates with equal/sub/'
        'super/disjoint hash sets incl. stale ones, parent+child duplicates, unregistered valid/invalid/'
        'compressed Manifests, two Manifests per directory, same-directory Manifest chains, IGNORE, entry '
        'naming a directory) x edit x options (hashes, sort, force, watermark, format, profile) x target x '
        'interface; thorough adds every two-round history; case = that tuple; non-trivial = the update '
        'completed and the reference verdict on the result is definite')
ASSUMPTIONS = [
    'oracle = gverif/refverify.py on the disk as left by the update + a fresh gemato verify',
    'if update or save raised, C03 demands nothing (C10/C18 judge those runs)',
    'sub-directory updates are judged inside the updated directory plus the MANIFEST chain above it',
    'one small base tree (4 files, 3 directories, nesting 2); contents incl. an empty file',
    'interface cli_create: `gemato create` run on the root of a tree that already carries Manifests (every prior state)',
    'interface lib_twice: update_entries_for_directory called two or three times on one loader (a sub-directory, the '
    'target, the target again) before ONE save_manifests()',
    'interface lib_same: the two rounds of a history run on ONE loader object (update+save, edit, update+save), with '
    'options under which the first save renames Manifests (compression / decompression) and without',
]

TOP = scen.TOP
TARGETS = ['', 'd', 'd/e', 'g', 'dx']

OPTS_QUICK = [
    dict(hashes=('SHA1',), sort=False, force=False, wm=None, fmt=None, profile='default'),
    # (MD5 + SHA1 is the UNION of the hash sets of the dup_disjoint / dup_parent_child priors)
    dict(hashes=('MD5', 'SHA1'), sort=True, force=False, wm=None, fmt=None, profile='default'),
    dict(hashes=('SHA1',), sort=False, force=True, wm=None, fmt=None, profile='default'),
    dict(hashes=('BLAKE2B', 'SHA512'), sort=True, force=True, wm=0, fmt='gz', profile='default'),
    dict(hashes=('SHA1',), sort=False, force=False, wm=0, fmt='bz2', profile='default'),
    dict(hashes=('SHA1',), sort=True, force=False, wm=10 ** 6, fmt='xz', profile='default'),
    dict(hashes=None, sort=None, force=False, wm=None, fmt=None, profile='ebuild'),
]


def opts_all():
    out = []
    for hashes, sort, force, (wm, fmt) in itertools.product(
            [('SHA1',), ('MD5', 'SHA256'), ('BLAKE2B', 'SHA512')], (False, True), (False, True),
            [(None, None), (0, 'gz'), (0, 'lzma'), (60, 'bz2'), (10 ** 6, 'xz')]):
        out.append(dict(hashes=hashes, sort=sort, force=force, wm=wm, fmt=fmt, profile='default'))
    for p in ('ebuild', 'old-ebuild'):
        out.append(dict(hashes=None, sort=None, force=False, wm=None, fmt=None, profile=p))
        out.append(dict(hashes=('SHA1',), sort=False, force=True, wm=0, fmt='gz', profile=p))
    return out


def apply_edit_disk(root, edit):
    j = (lambda p: os.path.join(root, p))

    def rewrite(p, fn):
        if not os.path.isfile(j(p)):
            return False
        with open(j(p), 'rb') as f:
            d = f.read()
        with open(j(p), 'wb') as f:
            f.write(fn(d))
        return True
    if edit == 'none':
        return True
    if edit == 'alter_same':
        return rewrite('d/f1', lambda d: (bytes([d[0] ^ 1]) + d[1:]) if d else b'')
    if edit == 'alter_size':
        return rewrite('d/f1', lambda d: d + b'+')
    if edit == 'delete':
        if os.path.isfile(j('d/f1')):
            os.unlink(j('d/f1'))
            return True
        return False
    if edit == 'add':
        os.makedirs(j('d'), exist_ok=True)
        with open(j('d/new'), 'ab') as f:
            f.write(b'new')
        return True
    if edit == 'add_dir':
        os.makedirs(j('d/nd'), exist_ok=True)
        with open(j('d/nd/deep'), 'ab') as f:
            f.write(b'deep')
        return True
    if edit == 'delete_dir':
        if os.path.isfile(j('d/e/f2')):
            os.unlink(j('d/e/f2'))
            return True
        return False
    if edit == 'alter_top':
        return rewrite('f0', lambda d: d + b'!!')
    if edit == 'alter_two':
        a = rewrite('f0', lambda d: d + b'!')
        b = rewrite('d/e/f2', lambda d: d.swapcase() + b'.')
        return a or b
    raise ValueError(edit)


def run_update(root, iface, upath, o, create, keep=None):
    """keep: dict carried across the rounds of one history; with iface 'lib_same' the loader object created in
    the first round is REUSED for every later round (a long-lived loader), otherwise each round builds its own."""
    if iface in ('lib', 'lib_same', 'lib_twice'):
        def go():
            if iface == 'lib_same' and keep is not None and keep.get('loader') is not None:
                m = keep['loader']
                m.update_entries_for_directory(upath)
                m.save_manifests(force=o['force'])
                return 0
            kw = {}
            if o['hashes'] is not None:
                kw['hashes'] = list(o['hashes'])
            if o['sort'] is not None:
                kw['sort'] = o['sort']
            if o['wm'] is not None:
                kw['compress_watermark'] = o['wm']
            if o['fmt'] is not None:
                kw['compress_format'] = o['fmt']
            kw['profile'] = get_profile_by_name(o['profile'])
            if create:
                kw['allow_create'] = True
            m = gem.loader(root, TOP, **kw)
            if iface == 'lib_same' and keep is not None:
                keep['loader'] = m
            if iface == 'lib_twice':
                # several update calls before ONE save: a sub-directory first (if there is one), then the target
                if os.path.isdir(os.path.join(root, 'd')) and upath in ('', 'd'):
                    m.update_entries_for_directory('d')
                m.update_entries_for_directory(upath)
            m.update_entries_for_directory(upath)
            m.save_manifests(force=o['force'])
            return 0
        return gem.call(go)
    argv = ['create' if (create or iface == 'cli_create') else 'update']
    if o['hashes'] is not None:
        argv += ['-H', ' '.join(o['hashes'])]
    if o['force']:
        argv.append('-f')
    if o['wm'] is not None:
        argv += ['-c', str(o['wm'])]
    if o['fmt'] is not None:
        argv += ['-C', o['fmt']]
    if o['profile'] != 'default':
        argv += ['-p', o['profile']]
    argv.append(os.path.join(root, upath) if upath else root)
    return gem.cli(argv)


def prior_lines(tree_json):
    """All Manifest lines present before the update (for diagnosis only)."""
    from gverif.treemodel import comp_of, decompress
    out = set()
    for p, data in tree_json['files'].items():
        if os.path.basename(p).startswith('Manifest'):
            try:
                out.update(decompress(data, comp_of(os.path.basename(p))).decode('utf8').splitlines())
            except Exception:
                pass
    return out


def judge_disk(root, upath, o, case):
    """-> (list of (check, detail, extra-sig)), dontcare reason or None"""
    from gverif import refmanifest as rm
    v = refverify.expected_verify(root, TOP, upath)
    if v.kind == 'dontcare':
        # a Manifest file that THIS history's updates wrote (content differs from the prior state) must at least be a
        # Manifest: if the reference parser rejects it, the update did not describe the tree at all
        prior = case['tree']['files']
        for dp, _dn, fns in os.walk(root):
            for fn in fns:
                if not fn.startswith('Manifest'):
                    continue
                rel = os.path.relpath(os.path.join(dp, fn), root)
                with open(os.path.join(dp, fn), 'rb') as f:
                    now = f.read()
                if prior.get(rel) == now:
                    continue
                st, why = refverify.read_manifest(root, rel)
                if st == 'reject':
                    return [('written_manifest_invalid', f'{rel} as written by the update is rejected by the reference '
                             f'parser: {why}', {'manifest': rel})], None
                if st == 'dontcare':
                    # the reference leaves the reading of this text open (e.g. non-ASCII whitespace inside a line);
                    # whatever the reading, gemato must be able to verify what gemato has just written
                    fv = gem.lib_verify(root, TOP, upath)
                    if not (fv['kind'] == 'ret' and fv['value'] is True):
                        return [('fresh_verify_fails', f'{rel} as written by the update ({why}): '
                                 + gem.brief(fv) + ' ' + str(fv.get('path')),
                                 {'got': gem.brief(fv), 'path': fv.get('path'), 'manifest': rel})], None
        return [], v.dc[0]
    if upath and v.chain_broken:
        # sub-directory update: a Manifest ABOVE the updated directory that the update did not rewrite and
        # whose MANIFEST entry in its parent was stale already is a pre-existing inconsistency outside the
        # updated directory (the walk never sees that file) - the statement is about "that directory"
        prior = case['tree']['files']
        pre_existing = True
        for mp in v.chain_broken:
            md = os.path.dirname(mp)
            above = md != upath and refverify.comp_prefix(upath, md)
            try:
                with open(os.path.join(root, mp), 'rb') as f:
                    same = prior.get(mp) == f.read()
            except OSError:
                same = False
            if not (above and same):
                pre_existing = False
        if pre_existing:
            return [], 'stale MANIFEST entry for an unrewritten Manifest above the updated sub-directory'
    bad = []
    want = set(o['hashes'] if o['hashes'] is not None else ('BLAKE2B', 'SHA512'))
    lacking = {p: sorted(want - set(cks)) for p, (tags, _sz, cks) in v.entries.items()
               if not want <= set(cks)}
    suspicious = set(lacking) | {p for p, why in v.offenders.items() if why != 'stray'}
    # diagnosis: is the entry now on disk for a suspicious path a line that was
    # already present before the update (i.e. it was never refreshed)?
    old = prior_lines(case['tree'])
    unrefreshed = set()
    for mp, ents in v.manifests.items():
        d = os.path.dirname(mp)
        for e in ents:
            if e[0] in ('TIMESTAMP', 'IGNORE', 'DIST'):
                continue
            full = (d + '/' if d else '') + rm.full_path(e[0], e[1])
            if full in suspicious and rm.entry_line(e) in old:
                unrefreshed.add(full)
    extra = {'offenders': sorted(f'{p}:{w}' for p, w in v.offenders.items()),
             'chain': sorted(v.chain_broken), 'unrefreshed_prior_line': sorted(unrefreshed)}
    if v.kind != 'match':
        bad.append(('tree_not_described',
                    f'reference verdict {v.kind}: offenders={dict(v.offenders)} chain={v.chain_broken} '
                    f'conflicts={v.conflicts}', extra))
    if v.multi:
        bad.append(('covered_more_than_once', f'{dict(v.multi)}', {'multi': sorted(v.multi)}))
    if lacking:
        bad.append(('requested_hash_missing', f'{lacking}',
                    {'paths': sorted(lacking), 'unrefreshed_prior_line': sorted(unrefreshed)}))
    fv = gem.lib_verify(root, TOP, upath)
    if not (fv['kind'] == 'ret' and fv['value'] is True):
        bad.append(('fresh_verify_fails', gem.brief(fv) + ' ' + str(fv.get('path')),
                    {'got': gem.brief(fv), 'path': fv.get('path'),
                     'unrefreshed_prior_line': sorted(unrefreshed)}))
    return bad, None


def check_case(case, scratch, stats=None):
    root = fresh_root(scratch)
    Tree.from_json(case['tree']).write(root)
    out = []
    keep = {}
    for rn, (edit, upath, o, iface) in enumerate(case['rounds']):
        apply_edit_disk(root, edit)
        create = not os.path.exists(os.path.join(root, TOP))
        if create and upath:
            break
        if upath and not os.path.isdir(os.path.join(root, upath)):
            break
        if iface in ('cli', 'cli_create') and o['sort'] and o['profile'] == 'default':
            o = dict(o, sort=False)      # the CLI has no sort switch
        r = run_update(root, iface, upath, o, create, keep)
        ok = (r['kind'] == 'ret' and r.get('value') == 0)
        if stats is not None:
            stats.transitions += 1
            stats.outcomes[f'round{rn}/{iface}/{gem.brief(r)}'] += 1
        if not ok:
            if stats is not None:
                stats.dontcare['update did not complete: ' + gem.brief(r)] += 1
            break
        if case.get('prior') == 'unreg_corrupt_gz':
            # DESIGN §C03: an unregistered 'Manifest' that is a corrupt compressed stream is outside
            # the statement (it is neither a Manifest nor an ordinary data file name)
            bad, dc = [], 'unregistered Manifest that is a corrupt compressed stream'
        else:
            bad, dc = judge_disk(root, upath, o, case)
        if stats is not None:
            stats.transitions += 1
            if dc:
                stats.dontcare[dc] += 1
            else:
                stats.compared += 1
        for check, detail, extra in bad:
            sig = {'check': check, 'prior': case.get('prior'), 'target': upath,
                   'iface': iface}
            sig.update(extra)
            out.append({'sig': sig, 'case': case,
                        'message': f'{check} after round {rn} ({iface} update of {upath!r}, edit={edit}, '
                        f'prior={case.get("prior")}, opts={o}): {detail}'})
        if bad:
            break
    if stats is not None:
        stats.evaluations += 1
    return out


def replay(case, scratch):
    case = dict(case)
    case['rounds'] = [(e, u, dict(o, hashes=tuple(o['hashes']) if o['hashes'] is not None else None), i)
                      for e, u, o, i in case['rounds']]
    return check_case(case, scratch)


def shards(tier, seed):
    return [(name,) for name, _f in scen.priors()]


def run_shard(spec, tier, seed, scratch):
    stats = Stats()
    name = spec[0]
    factory = dict(scen.priors())[name]
    tree = factory().build()
    tj = tree.to_json()
    opts = OPTS_QUICK if tier == 'quick' else opts_all()
    edits = scen.EDITS
    for edit, upath, (oi, o), iface in itertools.product(edits, TARGETS, enumerate(opts),
                                                        ('lib', 'cli', 'cli_create', 'lib_twice')):
        if tier == 'quick' and iface != 'lib' and oi not in (0, 3, 6):
            continue
        if iface == 'lib_twice' and tier == 'quick' and (upath not in ('', 'd') or edit not in ('none', 'alter_size', 'add_dir')):
            continue
        if iface == 'cli_create' and (upath or (tier == 'quick' and edit not in ('none', 'alter_size', 'add_dir'))):
            continue        # `gemato create` on a tree that already has Manifests: whole tree only
        desc = (name, edit, upath, oi, iface)
        case = {'tree': tj, 'prior': name, 'rounds': [(edit, upath, o, iface)], 'desc': repr(desc)}
        n0 = stats.compared
        vs = check_case(case, scratch, stats)
        stats.case(desc, nontrivial=stats.compared > n0)
        if len(stats.samples) < 1 and edit != 'none':
            stats.sample({'prior': name, 'edit': edit, 'target': upath, 'opts': o, 'iface': iface})
        for x in vs:
            stats.violation(x['sig'], x['case'], x['message'])
    # two-round histories: (edit1, update whole/sub) then (edit2, update whole/sub)
    o0 = opts[0]
    o3 = opts[3] if tier == 'quick' else opts[7]
    e2s = edits if tier == 'thorough' else ['alter_size', 'delete', 'add_dir']
    for e1, u1, e2, u2, oo in itertools.product(edits, ('', 'd'), e2s, ('', 'd', 'd/e'), (o0, o3)):
        desc = (name, 'two_rounds', e1, u1, e2, u2, oo['wm'])
        case = {'tree': tj, 'prior': name, 'rounds': [(e1, u1, oo, 'lib'), (e2, u2, oo, 'lib')],
                'desc': repr(desc)}
        n0 = stats.compared
        vs = check_case(case, scratch, stats)
        stats.case(desc, nontrivial=stats.compared > n0 + 1)
        for x in vs:
            stats.violation(x['sig'], x['case'], x['message'])
    # the same two-round histories driven through ONE long-lived loader object (state the loader keeps across an
    # update+save - loaded/updated/renamed Manifests - is part of the history); options that make the first save
    # rename Manifests (compress / decompress) included
    o_ren = [oo_ for oo_ in (opts[3], opts[4], opts[5] if tier == 'quick' else opts[9]) ]
    for e1, u1, e2, u2, oo in itertools.product(edits if tier == 'thorough' else ['none', 'alter_size', 'add'],
                                                ('', 'd'), e2s + ['add'], ('', 'd'), [o0] + o_ren):
        desc = (name, 'two_rounds_same_loader', e1, u1, e2, u2, oo['wm'], oo['fmt'], oo['force'])
        case = {'tree': tj, 'prior': name, 'rounds': [(e1, u1, oo, 'lib_same'), (e2, u2, oo, 'lib_same')],
                'desc': repr(desc)}
        n0 = stats.compared
        vs = check_case(case, scratch, stats)
        stats.case(desc, nontrivial=stats.compared > n0 + 1)
        if stats.compared > n0 + 1:
            stats.counters['same_loader_second_round_judged'] += 1
        for x in vs:
            stats.violation(x['sig'], x['case'], x['message'])
    # thorough: three-round histories on the whole tree / the sub-directory d (states reached from
    # non-initial Manifest states, each judged)
    if tier == 'thorough':
        e3 = ['alter_size', 'delete', 'add_dir', 'alter_top']
        for e1, e2, e3_, (u1, u2, u3) in itertools.product(e3, e3, e3, [('', '', ''), ('d', '', 'd'), ('', 'd', ''),
                                                                         ('d', 'd/e', '')]):
            desc = (name, 'three_rounds', e1, e2, e3_, u1, u2, u3)
            case = {'tree': tj, 'prior': name,
                    'rounds': [(e1, u1, o0, 'lib'), (e2, u2, o3, 'lib'), (e3_, u3, o0, 'lib')], 'desc': repr(desc)}
            n0 = stats.compared
            vs = check_case(case, scratch, stats)
            stats.case(desc, nontrivial=stats.compared > n0 + 2)
            for x in vs:
                stats.violation(x['sig'], x['case'], x['message'])
    return stats


def finish(total, tier):
    errs = []
    if total.compared < 1000:
        errs.append(f'vacuity: only {total.compared} completed updates were judged')
    if not any(k.startswith('round1/') for k in total.outcomes):
        errs.append('vacuity: no second round executed')
    if not total.counters.get('same_loader_second_round_judged'):
        errs.append('vacuity: no second round on a reused loader was judged')
    return errs
