"""C18 — bad input produces a diagnosed failure, not an internal error.

Union of the C01, C03 and C09 case spaces (plus the odd corners the statement
names) run through `gemato verify [-k]`, `gemato update` (whole tree and each
sub-directory) and `gemato create` with every profile, in-process.  The only
acceptable ways out of gemato.cli.main are: a return value, SystemExit from
argparse, a GematoException turned into exit status 1 with a logged message, or
an OSError that the harness can attribute (re-issuing the failing call on
exc.filename outside gemato fails with the same errno).
"""

import itertools
import os

from gverif import gem, scen, seams
from gverif.common import fresh_root
from gverif.evidence import Stats
from gverif.props import c01, c03, c09
from gverif.treemodel import MSpec, Tree, render_layout

PID = 'C18'
LEVEL = 'exploration'
RULE = ('families: (T) every tree of the C01 families F1-F7 (quick: <=1 mutation) -> verify, verify -k, update; '
        '(U) every C03 prior state x edit -> verify -k, update of the whole tree and of every sub-directory, create, '
        'each with the default/ebuild/old-ebuild profile; (G) the C09 line-grammar product as the top-level Manifest '
        'of a small tree -> verify, verify -k, update; (O) named odd corners; (K) non-MANIFEST entries naming Manifest files; (X) the '
        'OpenPGP back end of the library scripted: operation x exit status x status lines x stderr bytes (ASCII, UTF-8, '
        'Latin-1, binary). A case = (family, descriptor, command); non-trivial = the command did not simply succeed')
ASSUMPTIONS = [
    'in-process gemato.cli.main with a log-capturing root handler; argparse exits are SystemExit',
    'an escaping OSError is "genuine" iff re-issuing open/stat/scandir on exc.filename fails with the same errno',
    'DONT_CARE: the deliberate NotImplementedError for a now-ignored path with an old parent entry; corrupt '
    'compressed streams / non-UTF-8 content of a Manifest IN USE (not UTF-8 Manifest text) - recognised from the input '
    'tree: the top-level Manifest, files MANIFEST entries refer to, files named Manifest* at or above the directory the '
    'command is run on, and - with an ebuild profile, which places Manifests by directory - any file named Manifest*; a '
    'damaged or binary file merely NAMED like a Manifest that nothing refers to is an odd file of the tree and is judged',
    'family X: gemato.openpgp.subprocess replaced by a shim whose processes answer from the case; status lines are '
    'well-formed GnuPG status lines, only exit status and the bytes on stderr vary; library exceptions are fine, '
    'anything else escaping is an internal error',
]

TOP = scen.TOP
PROFILES = ['default', 'ebuild', 'old-ebuild']


def attributable(o):
    fn = o.get('filename')
    if not fn or not isinstance(fn, str):
        return False
    for probe in (lambda: os.close(os.open(fn, os.O_RDONLY | os.O_NONBLOCK)), lambda: os.stat(fn),
                  lambda: os.scandir(fn).close(), lambda: open(fn, 'rb').close()):
        try:
            probe()
        except OSError as e:
            if e.errno == o.get('errno'):
                return True
        except ValueError:
            pass
    return False


def classify(o, corrupt_input=()):
    """-> (class, violation-sig or None).  corrupt_input: exception names excused by unreadable_manifests()
    (decided from the input, not from where the exception came from)."""
    if o['kind'] == 'ret':
        v = o['value']
        if v in (0, None):
            return 'ok', None
        if v == 1:
            if not any(lv == 'ERROR' for lv, _m in o['log']):
                return 'exit1_silent', {'check': 'exit_status_1_without_message'}
            return 'diagnosed', None
        return f'ret:{v!r}', {'check': 'unexpected_return_value', 'value': repr(v)}
    if o.get('class') == 'exit':
        return 'argparse_exit', None
    if o.get('class') == 'gemato':
        return 'gemato_escaped', {'check': 'library_exception_escaped_main', 'exc': o['exc']}
    if o.get('class') == 'oserror':
        if o.get('errno') is None and o['exc'] in ('OSError', 'BadGzipFile') and corrupt_input:
            return 'corrupt_compressed_manifest', None      # bz2/gzip report bad data as errno-less OSError
        if attributable(o):
            return 'oserror_genuine', None
        return 'oserror_unattributable', {'check': 'unattributable_oserror', 'exc': o['exc'],
                                          'errno': o.get('errno')}
    if o['exc'] == 'NotImplementedError' and 'now-ignored' in (o.get('msg') or ''):
        return 'notimplemented_deliberate', None
    if o['exc'] in (corrupt_input or ()):
        # a Manifest in use is a damaged compressed stream or not UTF-8: not "UTF-8 Manifest text"
        return 'corrupt_compressed_manifest', None
    return 'internal', {'check': 'internal_error', 'exc': o['exc'], 'where': o.get('where')}


def unreadable_manifests(tree_json, target='', profile_places_manifests=False):
    """-> set of exception names excused because a Manifest IN USE is not 'UTF-8 Manifest text': a file that a MANIFEST
    entry refers to, the top-level Manifest, or a file named Manifest* in the target directory of the command or
    above it (a candidate top-level Manifest for discovery) that is a damaged compressed stream or not UTF-8.  A
    damaged file merely NAMED like a Manifest that nothing refers to is just an odd file of the tree, and the
    statement covers any tree."""
    from gverif.treemodel import comp_of, decompress
    files = tree_json['files']
    corrupt, binary, referenced = set(), set(), {TOP}
    if profile_places_manifests:
        # the ebuild profiles decide by directory where Manifests live: a file occupying such a name is in use
        referenced |= {p for p in files if os.path.basename(p).startswith('Manifest')}
    d = target
    while True:
        for p in files:
            if os.path.dirname(p) == d and os.path.basename(p).startswith('Manifest'):
                referenced.add(p)
        if not d:
            break
        d = os.path.dirname(d)
    for p, data in files.items():
        b = os.path.basename(p)
        if not (b.startswith('Manifest') and isinstance(data, bytes)):
            continue
        try:
            text = decompress(data, comp_of(b)) if comp_of(b) else data
        except Exception:          # noqa: BLE001
            corrupt.add(p)
            continue
        try:
            text.decode('utf8')
        except UnicodeDecodeError:
            binary.add(p)
        for ln in text.split(b'\n'):
            f = ln.split()
            if len(f) >= 2 and f[0] == b'MANIFEST':
                try:
                    rel = f[1].decode('utf8')
                    from gverif import refmanifest as _rm
                    u = _rm.unescape_path(rel)
                    rel = u[1] if isinstance(u, tuple) and isinstance(u[1], str) else rel
                except Exception:          # noqa: BLE001
                    continue
                referenced.add(os.path.normpath(os.path.join(os.path.dirname(p), rel)))
    out = set()
    if corrupt & referenced:
        out |= {'EOFError', 'BadGzipFile', 'LZMAError', 'error'}
    if binary & referenced:
        out.add('UnicodeDecodeError')
    return out


def commands(root, tree_json, what):
    """(label, argv) list for a tree."""
    out = []
    if 'verify' in what:
        out.append(('verify', ['verify', root]))
        out.append(('verify-k', ['verify', '-k', root]))
    if 'update' in what:
        out.append(('update', ['update', '-H', 'SHA1', root]))
    return out


def run_cmds(case, scratch, stats=None):
    """case: tree, cmds [(label, argv-with-{root})].  Each command on a fresh copy."""
    out = []
    for label, argv in case['cmds']:
        root = fresh_root(scratch)
        try:
            Tree.from_json(case['tree']).write(root)
        except (OSError, ValueError, UnicodeError):
            if stats is not None:
                stats.dontcare['tree not materialisable'] += 1
            return out
        for pre in case.get('pre', ()):
            c03.apply_edit_disk(root, pre)
        argv = [a.replace('{root}', root) for a in argv]
        o = gem.cli(argv)
        prof = argv[argv.index('-p') + 1] if '-p' in argv else 'default'
        cls, sig = classify(o, unreadable_manifests(case['tree'], argv[-1][len(root):].strip('/'), prof != 'default'))
        if stats is not None:
            stats.evaluations += 1
            stats.transitions += 1
            stats.compared += 1
            stats.outcomes[f'{label.split(":")[0]}/{cls}'] += 1
        if sig:
            sig = dict(sig, cmd=label.split(':')[0])
            sig.update(case.get('sig_extra') or {})
            files = case['tree']['files']
            if any(os.path.basename(p).startswith('Manifest') and b'\\x00' in (d if isinstance(d, bytes) else b'')
                   for p, d in files.items()):
                sig['manifest_has_nul_escape'] = True
            tgt = argv[-1][len(root):].strip('/')
            if any(os.path.join(tgt, n) in files for n in ('Manifest.gz', 'Manifest.bz2', 'Manifest.lzma', 'Manifest.xz')):
                sig['compressed_manifest_beside_top'] = True
            c = dict(case, cmds=[(label, case['cmds'][[x[0] for x in case['cmds']].index(label)][1])])
            out.append({'sig': sig, 'case': c,
                        'message': f'{sig["check"]}: gemato {" ".join(argv[:3])}… -> {gem.brief(o)} '
                        f'{o.get("where") or ""} {o.get("msg") or ""} (family={case.get("family")} {case.get("desc", "")[:160]})'})
    return out


def replay(case, scratch):
    case = dict(case)
    if case.get('family') == 'X':
        return check_X(case, scratch)
    case['cmds'] = [(l, list(a)) for l, a in case['cmds']]
    return run_cmds(case, scratch)


# ------------------------------------------------------------------ families

def fam_T(spec, tier, seed, scratch, stats):
    """C01 families through the CLI: reuse c01's enumerators with its check replaced."""
    class V:
        kind = 'dontcare'
        dc = ['c18']
        offenders = {}

    def check(case, _scratch, _stats=None):
        cmds = [('verify', ['verify', '{root}/' + case.get('path', '')]),
                ('verify-k', ['verify', '-k', '{root}/' + case.get('path', '')])]
        if not case.get('path') and not case.get('last_mtime'):
            cmds.append(('update', ['update', '-H', 'SHA1', '{root}']))
        c = {'family': 'T', 'tree': case['tree'], 'cmds': cmds, 'desc': case.get('desc', '')}
        n0 = stats.compared
        for x in run_cmds(c, scratch, stats):
            stats.violation(x['sig'], x['case'], x['message'])
        stats.case(('T', case.get('desc')), nontrivial=True)
        return [], V()
    orig = c01.check_case
    c01.check_case = check
    try:
        dummy = Stats()
        c01.FAMILIES[spec[1][0]][1](spec[1], tier, seed, scratch, dummy)
    finally:
        c01.check_case = orig


def fam_U(spec, tier, seed, scratch, stats):
    name = spec[1]
    tree = dict(scen.priors())[name]().build()
    tj = tree.to_json()
    dirs = ['', 'd', 'd/e', 'g']
    edits = scen.EDITS if tier == 'thorough' else ['none', 'alter_size', 'delete', 'add_dir']
    for edit in edits:
        cmds = [('verify-k', ['verify', '-k', '{root}'])]
        for prof in PROFILES:
            for d in dirs:
                cmds.append((f'update:{prof}:{d}', ['update', '-p', prof] + (['-H', 'SHA1'] if prof == 'default' else [])
                             + ['{root}/' + d]))
            cmds.append((f'update-f:{prof}', ['update', '-f', '-p', prof, '-H', 'SHA1', '-c', '0', '{root}']))
            cmds.append((f'create:{prof}', ['create', '-p', prof, '-H', 'SHA1', '{root}']))
            cmds.append((f'create:{prof}:d', ['create', '-p', prof, '-H', 'SHA1', '{root}/d']))
        cmds.append(('update-i', ['update', '-i', '-H', 'SHA1', '{root}']))
        cmds.append(('update-t', ['update', '-t', '-H', 'SHA1', '{root}']))
        c = {'family': 'U', 'tree': tj, 'pre': [edit], 'cmds': cmds, 'desc': f'prior={name} edit={edit}'}
        for x in run_cmds(c, scratch, stats):
            stats.violation(x['sig'], x['case'], x['message'])
        stats.case(('U', name, edit), nontrivial=True)
    if len(stats.samples) < 1:
        stats.sample({'family': 'U', 'prior': name, 'edits': edits, 'commands_per_tree': len(cmds)})


def fam_G(spec, tier, seed, scratch, stats):
    _g, ti = spec
    tag = c09.TAGS_A[ti]
    paths = c09.paths_a(seed) + c09.TS_FORMS
    sizes = c09.SIZES_A if tier == 'thorough' else ['1', '', '-1', '18446744073709551616']
    # size tokens made of 'digit' characters that are not decimal numbers, and a number too long for int()
    sizes = list(sizes) + (['\u00b2', '1\u00b2', '\u2460', '\U00010a40', '7' * 5000] if tier == 'thorough' else ['1\u00b2', '7' * 5000])
    nonascii = [['SHA1', '\u00e9\u00e9\u00e9\u00e9'], ['MD5', '9dd4e461268c8034f5c8564e155c67a6', 'SHA1', '\uff11' * 40]]
    tails = ((c09.TAILS_A + [['FOO', '00']]) if tier == 'thorough' else [[], ['MD5', 'd41d8cd9'], ['FOO', '00']]) + nonascii
    extras = c09.EXTRAS_A if tier == 'thorough' else [[]]
    n = c09.NAMES[seed % 5]
    d = c09.NAMES[(seed + 1) % 5]
    files = {n: b'x', f'{d}/{n}': b'y', f'{n} {d}': b'z', 'ü' + n: b'u', 'files/' + n: b'f'}
    for p, sz, tail, extra in itertools.product(paths, sizes, tails, extras):
        line = ' '.join([f for f in [tag, p, sz] if f] + tail + extra) + '\n'
        for ctx in (('alone', 'with_valid') if tier == 'thorough' else ('with_valid',)):
            text = line if ctx == 'alone' else f'DATA {n} 1 MD5 9dd4e461268c8034f5c8564e155c67a6\n' + line
            t = dict(files)
            t[TOP] = text.encode('utf8', 'surrogatepass')
            tj = {'files': t, 'links': {}, 'dirs': [], 'mtimes': {}}
            cmds = [('verify', ['verify', '{root}']), ('verify-k', ['verify', '-k', '{root}']),
                    ('update', ['update', '-H', 'SHA1', '{root}'])]
            c = {'family': 'G', 'tree': tj, 'cmds': cmds, 'desc': f'Manifest line {line!r} ({ctx})'}
            for x in run_cmds(c, scratch, stats):
                stats.violation(x['sig'], x['case'], x['message'])
            stats.case(('G', tag, p, sz, tuple(tail), tuple(extra), ctx), nontrivial=True)
    if len(stats.samples) < 1:
        stats.sample({'family': 'G', 'tag': tag, 'example_line': line})


def odd_corners():
    B = scen.BASE_FILES
    H1 = ('SHA1',)
    F = (lambda p, h=H1, tag='DATA': ('F', tag, p, h))
    flat = [F(p) for p in sorted(B)]

    def mk(items, files=None, raw=None, specs=None):
        t = Tree(files or B)
        render_layout(t, specs or [MSpec(TOP, items)])
        t.files.update(raw or {})
        return t
    yield 'dup_ignore', mk(flat + [('L', 'IGNORE x'), ('L', 'IGNORE x')])
    yield 'dup_ignore_existing_dir', mk([F('f0'), F('d/f1'), F('d/e/f2'), ('L', 'IGNORE g'), ('L', 'IGNORE g')])
    yield 'unknown_hash', mk(flat + [('L', 'DATA zz 0 FOO 00')], raw={'zz': b''})
    yield 'unknown_hash_on_existing', mk([('L', 'DATA f0 4 FOO 00')] + flat[1:])
    yield 'unsupported_hash', mk(flat + [('L', 'DATA zz 0 WHIRLPOOL 00')], raw={'zz': b''})
    yield 'lowercase_hash', mk(flat + [('L', 'DATA zz 0 sha1 00')], raw={'zz': b''})
    # hash-name alphabet on an EXISTING regular file of the recorded size (so that verification gets as far as
    # comparing checksums): unknown, unsupported, wrong case, the internal pseudo-keys of the metadata interface,
    # a repeated name, non-identifier names
    hn_subm = b'DATA f1 3 SHA1 fe05bcdcdc4928012781a5f1a2a77cbb5398e106\n'
    for hn in ('FOO', 'WHIRLPOOL', 'sha1', 'Sha1', '__size__', '__exists__', '__type__', '__mtime__', '__dev__',
               '_', 'SHA1-', '1', 'SIZE', 'null', 'SHA1 00 SHA1'):
        key = hn.replace(' ', '+')
        yield f'hashname_{key}_data', mk([('L', f'DATA f0 4 {hn} 00')] + [x for x in flat if x[2] != 'f0'])
        yield f'hashname_{key}_data_with_good', mk(
            [('L', f'DATA f0 4 SHA1 {__import__("hashlib").sha1(B["f0"]).hexdigest()} {hn} 00')]
            + [x for x in flat if x[2] != 'f0'])
        yield f'hashname_{key}_manifest', mk(
            [x for x in flat if not x[2].startswith('d/')] + [('L', f'MANIFEST d/Manifest {len(hn_subm)} {hn} 00')],
            raw={'d/Manifest': hn_subm, 'd/e/f2': b'two!'})
    yield 'escape_out_of_range', mk(flat + [('L', 'DATA \\U00110000 0')])
    yield 'escape_surrogate', mk(flat + [('L', 'DATA \\uD800 0')])
    yield 'escape_surrogate_ignore', mk(flat + [('L', 'IGNORE \\uDC80')])
    for cp in ('DC00', 'DC41', 'DC7F', 'DC80', 'DCFF', 'DBFF', 'DD00', 'DFFF'):
        yield f'escape_surrogate_{cp}_data', mk(flat + [('L', f'DATA x\\u{cp} 0')])
        yield f'escape_surrogate_{cp}_manifest', mk(flat + [('L', f'MANIFEST d/m\\u{cp} 0')])
    yield 'escape_nul', mk(flat + [('L', 'DATA a\\x00b 0')])
    yield 'escape_nul_ignore', mk(flat + [('L', 'IGNORE \\x00')])
    yield 'entry_names_directory', mk(flat + [('L', 'DATA g 0')])
    yield 'entry_names_directory_manifest', mk(flat + [('L', 'MANIFEST g 0')])
    yield 'entry_beneath_file', mk(flat + [('L', 'DATA f0/below 0')])
    yield 'manifest_beneath_file', mk(flat + [('L', 'MANIFEST f0/Manifest 0')])
    yield 'ignore_beneath_file', mk(flat + [('L', 'IGNORE f0/below')])
    yield 'entry_dotdot', mk(flat + [('L', 'DATA ../outside 0')])
    yield 'entry_trailing_slash', mk(flat + [('L', 'DATA d/ 0')])
    yield 'manifest_entry_for_data', mk(flat + [('L', 'MANIFEST d/f1 3')])
    yield 'manifest_self_reference', mk(flat + [('L', 'MANIFEST Manifest 0')])
    yield 'manifest_cycle', mk(None, specs=[MSpec(TOP, flat + [('L', 'MANIFEST d/Manifest 22')]),
                                              MSpec('d/Manifest', [('L', 'MANIFEST ../Manifest 0')])])
    # two byte-identical lines in a sub-Manifest + a contradicting entry for the same file in the parent, the file gone
    _l = 'DATA f1 3 SHA1 fe05bcdcdc4928012781a5f1a2a77cbb5398e106'
    _files = {k: v for k, v in B.items() if k != 'd/f1'}
    yield 'exact_dup_in_sub_contradicting_parent_file_gone', mk(None, files=_files, specs=[
        MSpec(TOP, [F(p) for p in sorted(_files) if not p.startswith('d/')] + [('M', 'd/Manifest', H1), ('L', 'DATA d/f1 5 SHA1 ' + 'a' * 40)]),
        MSpec('d/Manifest', [('L', _l), ('L', _l), F('d/e/f2')])])
    yield 'exact_dup_in_sub_contradicting_parent', mk(None, specs=[
        MSpec(TOP, [F(p) for p in sorted(B) if not p.startswith('d/')] + [('M', 'd/Manifest', H1), ('L', 'DATA d/f1 5 SHA1 ' + 'a' * 40)]),
        MSpec('d/Manifest', [('L', _l), ('L', _l), F('d/e/f2')])])
    yield 'unreferenced_sub_manifest', mk(flat, raw={'d/Manifest': b'DATA f1 3 SHA1 fe05bcdcdc4928012781a5f1a2a77cbb5398e106\n'})
    yield 'unreferenced_sub_manifest_deep', mk(flat, raw={'d/e/Manifest': b'DATA f2 4\n'})
    yield 'unreferenced_sub_manifest_two', mk(flat, raw={'d/Manifest': b'DATA f1 3\n', 'd/e/Manifest.gz':
                                                       __import__('gzip').compress(b'DATA f2 4\n', mtime=0)})
    # files NAMED like a compressed Manifest that nothing refers to and that are damaged in every way a stream can be
    import bz2 as _bz2, gzip as _gzip, lzma as _lzma
    good = {'gz': _gzip.compress(b'DATA f1 3\n' * 40, mtime=0), 'bz2': _bz2.compress(b'DATA f1 3\n' * 40),
            'xz': _lzma.compress(b'DATA f1 3\n' * 40, format=_lzma.FORMAT_XZ),
            'lzma': _lzma.compress(b'DATA f1 3\n' * 40, format=_lzma.FORMAT_ALONE)}
    for fmt, g in good.items():
        body = bytearray(g)
        for i in range(len(body) // 2, min(len(body) // 2 + 8, len(body))):
            body[i] ^= 0xFF
        damage = {'empty': b'', 'garbage': b'this is not a stream\n', 'header_only': g[:6], 'truncated': g[:-5],
                  'body_damaged': bytes(body), 'trailing_garbage': g + b'XYZ', 'not_utf8': None}
        for kind, data in damage.items():
            if data is None:
                import gverif.treemodel as _tm
                data = _tm.compress(b'DATA f\xff 3\n', fmt)
            yield f'unreg_damaged_{fmt}_{kind}', mk(flat, raw={f'd/Manifest.{fmt}': data})
    yield 'unreg_not_utf8_plain', mk(flat, raw={'d/Manifest': b'DATA f\xff 3\n'})
    yield 'unregistered_beside_top', mk(flat, raw={'Manifest.gz': __import__('gzip').compress(b'', mtime=0)})
    yield 'unregistered_beside_top_entries', mk(flat, raw={'Manifest.bz2': __import__('bz2').compress(b'DATA f0 4\n')})
    yield 'aux_outside_files', mk(flat + [('L', 'AUX nothing 0')])
    yield 'dist_and_data_same_name', mk(flat + [('L', 'DIST f0 4')])
    yield 'timestamp_twice', mk(flat + [('L', 'TIMESTAMP 2017-01-01T00:00:00Z'), ('L', 'TIMESTAMP 2018-01-01T00:00:00Z')])
    yield 'timestamp_in_sub', mk(None, specs=[MSpec(TOP, [F('f0'), F('g/f3'), ('M', 'd/Manifest', H1)]),
                                               MSpec('d/Manifest', [F('d/f1'), F('d/e/f2'),
                                                                    ('L', 'TIMESTAMP 2017-01-01T00:00:00Z')])])
    subm = b'DATA f1 3 SHA1 fe05bcdcdc4928012781a5f1a2a77cbb5398e106\n'
    import hashlib as _h
    yield 'data_entry_names_valid_manifest', mk(
        [F('f0'), F('g/f3'), F('d/e/f2'), F('dx/f5'), F('d.txt'),
         ('L', 'DATA d/Manifest %d SHA1 %s' % (len(subm), _h.sha1(subm).hexdigest()))], raw={'d/Manifest': subm})
    yield 'manifest_in_hidden_dir', mk(
        flat + [('L', 'MANIFEST .h/Manifest %d SHA1 %s' % (len(subm), _h.sha1(subm).hexdigest()))],
        raw={'.h/Manifest': subm, '.h/f1': b'one'})
    yield 'manifest_under_ignored_dir', mk(
        flat + [('L', 'IGNORE ig'), ('L', 'MANIFEST ig/Manifest %d SHA1 %s' % (len(subm), _h.sha1(subm).hexdigest()))],
        raw={'ig/Manifest': subm, 'ig/f1': b'one'})
    yield 'non_ascii_checksum', mk([('L', 'DATA f0 4 SHA1 \u00e9\u00e9\u00e9\u00e9')] + flat[1:] if False else
                                   [('L', 'DATA f0 4 SHA1 \u00e9\u00e9\u00e9\u00e9')] + [x for x in flat if x[2] != 'f0'])
    yield 'non_ascii_checksum_manifest_entry', mk(
        [x for x in flat if not x[2].startswith('d/')] + [('L', 'MANIFEST d/Manifest %d MD5 \u2014' % len(subm))],
        raw={'d/Manifest': subm, 'd/e/f2': b'two!'})
    yield 'empty_manifest', mk([])
    yield 'non_utf8_filename', mk(flat, raw={'d/bad\udcff name': b'x'})
    yield 'non_utf8_dirname', mk(flat, raw={'bad\udc80dir/x': b'x'})
    yield 'listed_non_utf8_filename', mk(flat + [('L', 'DATA d/bad\\uDCFF 1')], raw={'d/bad\udcff': b'x'})
    yield 'huge_size', mk(flat + [('L', 'DATA zz 99999999999999999999999999999')], raw={'zz': b''})
    yield 'ignore_toplevel_manifest', mk(flat + [('L', 'IGNORE Manifest')])
    yield 'data_entry_for_toplevel_manifest', mk(flat + [('L', 'DATA Manifest 0')])
    # old-ebuild: package with files/ holding a stray Manifest, category layout
    repo = {'profiles/categories': b'cat\n', 'cat/pkg/pkg-1.ebuild': b'e', 'cat/pkg/metadata.xml': b'<m/>',
            'cat/pkg/files/patch': b'p', 'cat/pkg/files/Manifest': b'DATA patch 1\n', 'eclass/x.eclass': b'x'}
    yield 'oldebuild_files_with_manifest', Tree(repo)
    repo_f = {k: v for k, v in repo.items() if not k.startswith('cat/pkg/files/')}
    repo_f['cat/pkg/files'] = b'a regular file named files'
    yield 'oldebuild_regular_file_named_files', Tree(repo_f)
    repo_g = dict(repo_f)
    repo_g['cat/pkg/Manifest'] = b''
    yield 'oldebuild_regular_file_named_files_with_manifest', Tree(repo_g)
    repo2 = dict(repo)
    del repo2['cat/pkg/files/Manifest']
    repo2['cat/pkg/files/sub/Manifest.gz'] = __import__('gzip').compress(b'', mtime=0)
    yield 'oldebuild_files_sub_manifest', Tree(repo2)
    repo3 = dict(repo2)
    repo3['cat/pkg/Manifest'] = b'DIST x.tar 1 SHA1 00\nAUX missing 0\n'
    yield 'oldebuild_stale_aux', Tree(repo3)


def fam_O(spec, tier, seed, scratch, stats):
    name = spec[1]
    tree = dict(odd_corners())[name]
    tj = tree.to_json()
    cmds = [('verify', ['verify', '{root}']), ('verify-k', ['verify', '-k', '{root}'])]
    subdirs = sorted(d for d in tree.all_dirs() if d.count('/') <= 2)
    for prof in PROFILES:
        h = ['-H', 'SHA1'] if prof == 'default' else []
        cmds.append((f'update:{prof}', ['update', '-p', prof] + h + ['{root}']))
        cmds.append((f'update-f:{prof}', ['update', '-f', '-p', prof] + h + ['{root}']))
        cmds.append((f'create:{prof}', ['create', '-p', prof] + h + ['{root}']))
        for d in subdirs:
            cmds.append((f'update:{prof}:{d}', ['update', '-p', prof] + h + ['{root}/' + d]))
            cmds.append((f'verify:{d}', ['verify', '{root}/' + d]))
    if name in ('empty_manifest', 'timestamp_in_sub'):
        # option values the tool does not know: a diagnosed refusal (argparse exit or exit status 1), no traceback
        for prof in ('nonesuch', 'EBUILD', ''):
            cmds.append((f'update-badprofile:{prof}', ['update', '-p', prof, '-H', 'SHA1', '{root}']))
            cmds.append((f'create-badprofile:{prof}', ['create', '-p', prof, '-H', 'SHA1', '{root}']))
        for fmt in ('zip', 'GZ', ''):
            cmds.append((f'update-badformat:{fmt}', ['update', '-f', '-H', 'SHA1', '-c', '0', '-C', fmt, '{root}']))
            cmds.append((f'create-badformat:{fmt}', ['create', '-H', 'SHA1', '-c', '0', '-C', fmt, '{root}']))
    if name in ('empty_manifest', 'timestamp_in_sub'):
        # every profile named explicitly, without --hashes: the default profile implies no hash set -> diagnosed
        for prof in PROFILES:
            for d in [''] + subdirs[:1]:
                tgt = '{root}/' + d if d else '{root}'
                cmds.append((f'update-nohashes:{prof}:{d}', ['update', '-p', prof, tgt]))
                cmds.append((f'create-nohashes:{prof}:{d}', ['create', '-p', prof, tgt]))
    if name == 'empty_manifest':
        cmds.append(('badoption', ['verify', '--no-such-option', '{root}']))
        cmds.append(('update-nohashes', ['update', '{root}']))
        cmds.append(('update-badjobs', ['update', '-j', '0', '-H', 'SHA1', '{root}']))
    c = {'family': 'O', 'tree': tj, 'cmds': cmds, 'desc': f'odd corner {name}', 'sig_extra': {'corner': name}}
    for x in run_cmds(c, scratch, stats):
        stats.violation(x['sig'], x['case'], x['message'])
    stats.case(('O', name), nontrivial=True)
    stats.sample({'family': 'O', 'corner': name, 'commands': len(cmds)})


K_TAGS = ('DATA', 'MISC', 'EBUILD', 'AUX', 'MANIFEST', 'IGNORE', 'DIST')
K_KINDS = ('dir', 'hidden_dir', 'file', 'hidden_file', 'missing', 'symlink_dir', 'symlink_file', 'broken_symlink',
           'manifest_file')


def k_tree(tag, kind, where, dup):
    """A consistent small tree plus ONE extra entry of type ``tag`` naming an object of ``kind``."""
    B = {'f0': b'zero', 'd/f1': b'one', 'g/f3': b''}
    base = 'd' if where == 'sub' else ''
    j = (lambda n: f'{base}/{n}' if base else n)
    name = {'dir': 'objdir', 'hidden_dir': '.objdir', 'file': 'obj', 'hidden_file': '.obj', 'missing': 'gone',
            'symlink_dir': 'lnkd', 'symlink_file': 'lnkf', 'broken_symlink': 'lnkb', 'manifest_file': 'm/Manifest'}[kind]
    files, links, dirs = dict(B), {}, []
    if kind in ('dir', 'hidden_dir'):
        files[j(name) + '/inner'] = b'in'
    elif kind in ('file', 'hidden_file'):
        files[j(name)] = b'obj'
    elif kind == 'symlink_dir':
        links[j(name)] = 'g' if not base else '../g'
    elif kind == 'symlink_file':
        links[j(name)] = 'f0' if not base else '../f0'
    elif kind == 'broken_symlink':
        links[j(name)] = 'nowhere'
    elif kind == 'manifest_file':
        files[j(name)] = b'DATA x 1\n'
        files[j('m/x')] = b'x'
    rel = name
    if tag == 'AUX':
        line = f'AUX {rel} 3'
    elif tag == 'IGNORE':
        line = f'IGNORE {rel}'
    elif tag == 'DIST':
        line = f'DIST {rel.replace("/", "_")} 3 SHA1 ' + '0' * 40
    else:
        line = f'{tag} {rel} 3 SHA1 ' + '0' * 40
    lines = [('L', line)] * dup
    H1 = ('SHA1',)
    t = Tree(files, links, dirs)
    listed = [p for p in sorted(B)]
    if where == 'sub':
        specs = [MSpec(TOP, [('F', 'DATA', 'f0', H1), ('F', 'DATA', 'g/f3', H1), ('M', 'd/Manifest', H1)]),
                 MSpec('d/Manifest', [('F', 'DATA', 'd/f1', H1)] + lines)]
    else:
        specs = [MSpec(TOP, [('F', 'DATA', p, H1) for p in listed] + lines)]
    render_layout(t, specs)
    return t


def fam_K(spec, tier, seed, scratch, stats):
    _k, tag = spec
    for kind, where, dup in itertools.product(K_KINDS, ('top', 'sub'), (1, 2)):
        tree = k_tree(tag, kind, where, dup)
        cmds = [('verify', ['verify', '{root}']), ('verify-k', ['verify', '-k', '{root}']),
                ('verify:d', ['verify', '{root}/d'])]
        for prof in PROFILES:
            h = ['-H', 'SHA1'] if prof == 'default' else []
            cmds.append((f'update:{prof}', ['update', '-p', prof] + h + ['{root}']))
            cmds.append((f'update:{prof}:d', ['update', '-p', prof] + h + ['{root}/d']))
            cmds.append((f'create:{prof}', ['create', '-p', prof] + h + ['{root}']))
        cmds.append(('update-f', ['update', '-f', '-H', 'SHA1', '{root}']))
        c = {'family': 'K', 'tree': tree.to_json(), 'cmds': cmds,
             'desc': f'{tag} entry (x{dup}) naming a {kind} in the {where} Manifest',
             'sig_extra': {'entry': f'{tag}->{kind}'}}
        for x in run_cmds(c, scratch, stats):
            stats.violation(x['sig'], x['case'], x['message'])
        stats.case(('K', tag, kind, where, dup), nontrivial=True)
    if len(stats.samples) < 1:
        stats.sample({'family': 'K', 'tag': tag, 'kinds': K_KINDS, 'commands_per_tree': len(cmds)})


# ---- family X: what the OpenPGP back end says (exit status, status lines, stderr BYTES in any locale)

X_STDERR = [b'', b'gpg: failed\n', 'gpg: \u00e9chec\n'.encode('utf8'), 'gpg: \u00e9chec\n'.encode('latin-1'),
            b'\xff\xfe\x00', b'\x80']
_FPR = '0123456789ABCDEF0123456789ABCDEF01234567'
_VALID = f'[GNUPG:] VALIDSIG {_FPR} 2017-11-08 1510133850 0 4 0 1 8 01 {_FPR}\n'
X_STATUS = {
    'none': '', 'good': f'[GNUPG:] GOODSIG {_FPR[-16:]} x\n{_VALID}[GNUPG:] TRUST_ULTIMATE 0 pgp\n',
    'untrusted': f'[GNUPG:] GOODSIG {_FPR[-16:]} x\n{_VALID}[GNUPG:] TRUST_NEVER 0 pgp\n',
    'expkey': f'[GNUPG:] EXPKEYSIG {_FPR[-16:]} x\n{_VALID}', 'revkey': f'[GNUPG:] REVKEYSIG {_FPR[-16:]} x\n{_VALID}',
    'bad': f'[GNUPG:] BADSIG {_FPR[-16:]} x\n', 'err': f'[GNUPG:] ERRSIG {_FPR[-16:]} 1 8 01 1510133850 9 -\n',
    'import_ok': f'[GNUPG:] IMPORT_OK 1 {_FPR}\n',
}
X_OPS = ('iso_close', 'iso_import', 'iso_verify', 'sys_verify', 'sys_sign', 'iso_sign')


def check_X(case, scratch, stats=None):
    import io
    import types
    import subprocess as real_subprocess
    import gemato.openpgp as gpgmod
    op, ret, status, err = case['op'], case['ret'], X_STATUS[case['status']], bytes(case['stderr'])

    class Proc(seams.PopenLike):
        def __init__(self, argv):
            self.argv = argv
            self.returncode = None

        def communicate(self, stdin=None):
            self.returncode = ret
            return (status.encode('utf8') if '--kill' not in self.argv else b'', err)

        def wait(self, timeout=None):
            self.returncode = ret
            return ret

    shim = types.SimpleNamespace(Popen=lambda argv, **kw: Proc(argv), PIPE=real_subprocess.PIPE,
                                 DEVNULL=getattr(real_subprocess, 'DEVNULL', None))
    old = gpgmod.subprocess

    def go():
        gpgmod.subprocess = shim
        env = None
        try:
            if op.startswith('iso'):
                env = gpgmod.IsolatedGPGEnvironment()
            else:
                env = gpgmod.SystemGPGEnvironment()
            if op == 'iso_import':
                env.import_key(io.BytesIO(b'key material'))
            elif op.endswith('_verify'):
                env.verify_file(io.StringIO('-----BEGIN PGP SIGNED MESSAGE-----\n\nDATA a 0\n'))
            elif op.endswith('_sign'):
                env.clear_sign_file(io.StringIO('DATA a 0\n'), io.StringIO())
            if op.startswith('iso'):
                env.close()
                env = None
            return 0
        finally:
            gpgmod.subprocess = old
            if env is not None and hasattr(env, '_home') and env._home:
                import shutil
                shutil.rmtree(env._home, ignore_errors=True)
    o = gem.call(go)
    if stats is not None:
        stats.evaluations += 1
        stats.transitions += 1
        stats.compared += 1
        stats.outcomes[f'X/{op}/{"ok" if o["kind"] == "ret" else o.get("class")}'] += 1
    if o['kind'] == 'exc' and o.get('class') not in ('gemato',):
        sig = {'check': 'internal_error' if o.get('class') == 'internal' else 'unexpected_' + str(o.get('class')),
               'exc': o['exc'], 'family': 'X', 'op': op}
        return [{'sig': sig, 'case': case,
                 'message': f'{sig["check"]}: {op} with back-end exit {ret}, status {case["status"]!r}, stderr '
                 f'{err!r} -> {gem.brief(o)} {o.get("msg") or ""}'}]
    return []


def fam_X(spec, tier, seed, scratch, stats):
    _x, op = spec
    statuses = ['none'] if op in ('iso_close', 'sys_sign', 'iso_sign') else (
        ['none', 'import_ok'] if op == 'iso_import' else [k for k in X_STATUS if k != 'import_ok'])
    for ret, st, err in itertools.product((0, 1, 2), statuses, X_STDERR):
        case = {'family': 'X', 'op': op, 'ret': ret, 'status': st, 'stderr': err}
        for x in check_X(case, scratch, stats):
            stats.violation(x['sig'], x['case'], x['message'])
        stats.case(('X', op, ret, st, err), nontrivial=True)
    if len(stats.samples) < 1:
        stats.sample({'family': 'X', 'op': op, 'exit': [0, 1, 2], 'statuses': statuses, 'stderr': [repr(e) for e in X_STDERR]})


def shards(tier, seed):
    t = [s for s in c01.shards('quick', seed) if s[0] != 'F9']     # F9 (several CLI paths) has its own case format
    if tier == 'quick':
        def keep(x):
            if x[0] == 'F1':
                return x[2] == 0 and x[3] == 'DATA'
            if x[0] == 'F2':
                return x[3] in (None, 'gz') and x[4] in (None, 'xz')
            if x[0] == 'F3':
                return x[1] in ('DATA', 'IGNORE', 'MANIFEST')
            return x[0] != 'F6'
        t = [x for x in t if keep(x)]
    out = [('T', s) for s in t]
    out += [('U', name) for name, _f in scen.priors()]
    out += [('G', ti) for ti in range(len(c09.TAGS_A))]
    # 'manifest_cycle' (Manifest -> d/Manifest -> ../Manifest) makes gemato load ever longer spellings of the same
    # two files until the kernel answers ENAMETOOLONG (~1.5 s per command): thorough tier only
    out += [('O', name) for name, _t in odd_corners() if tier == 'thorough' or name != 'manifest_cycle']
    out += [('K', tag) for tag in K_TAGS]
    out += [('X', op) for op in X_OPS]
    return out


def run_shard(spec, tier, seed, scratch):
    stats = Stats()
    {'T': fam_T, 'U': fam_U, 'G': fam_G, 'O': fam_O, 'K': fam_K, 'X': fam_X}[spec[0]](spec, tier, seed, scratch, stats)
    stats.counters['family_' + spec[0]] += 1
    return stats


def finish(total, tier):
    errs = []
    k = ' '.join(total.outcomes)
    for need in ('/ok', '/diagnosed', '/oserror_genuine', '/argparse_exit'):
        if need not in k:
            errs.append(f'vacuity: outcome class {need} never seen')
    return errs
