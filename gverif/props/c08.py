"""C08 — Manifest text round-trips: writer and parser are mutual inverses.

Families (all exhaustive over the stated finite spaces):

  a  every code point 0..0x10FFFF as the path c, 'a'+c+'b' and '\\x4'+c+'1'
     (DATA; the bare c also as IGNORE)
  b  every string of length <= 3 (quick) / <= 4 (thorough) over a 15-character hostile
     alphabet (not starting with '/'), as DATA, IGNORE, AUX and (no '/') DIST
  c  single entries: tags x paths x sizes x checksum sets, IGNORE x paths, TIMESTAMP corners;
     lists: every sequence (with repetition) of <= 3 (quick) / <= 4 (thorough) entries from a
     14-entry menu, dumped unsorted and with sort=True
  d  fixed point: every text of C09's grammar product (A) and byte-mutation family (D)
     (thorough: also C09's escape family C and its token sequences B up to length 5) that
     the real parser accepts is dumped, re-loaded and dumped again
  e  the entries of (c) through real files: plain, gz, bz2, lzma, xz via
     gemato.compression.open_potentially_compressed_path
  g  one entry object dumped, changed field by field to another menu entry of the same tag
     and dumped again (all ordered pairs of a per-tag menu)
  h  LENGTH: paths holding n characters that need escaping, n in 1, 2, 31, 32, 33, 34, 64,
     100, 300 (thorough: 25 counts up to 1000), for 8 (thorough: 16) such characters
     (space, backslash, control characters, Unicode spaces, a surrogateescape byte) in the
     layouts pure c*n / p+c*n+p / (p+c)*n+p, plus three mixed layouts cycling through all of
     them (bare, between plain characters, followed by hex-digit-like text), for every
     path-carrying tag (MANIFEST DATA DIST EBUILD MISC AUX IGNORE) x every codec
     (io.StringIO, plain file, gz, bz2, lzma, xz)

Checks per entry list E: dump(E) has exactly len(E) lines, fields separated by single
U+0020 and free of any other whitespace-like character; load(dump(E)) == E field-wise;
dump(load(dump(E))) == dump(E); the reference parser reads gemato's text to the same
entries; gemato reads the reference writer's text to the same entries.
"""

import datetime
import io
import itertools
import os
import unicodedata

from gemato.compression import open_potentially_compressed_path
from gemato.manifest import (ManifestEntryAUX, ManifestEntryIGNORE, ManifestEntryTIMESTAMP,
                             ManifestFile, new_manifest_entry)

from gverif import gem, refmanifest as rm, sigcap, treemodel
from gverif.common import fresh_root
from gverif.evidence import Stats
from gverif.props import c09

PID = 'C08'
LEVEL = 'exploration'
RULE = ('families a-e of the module doc, each enumerated completely: (a) all 1,114,112 code '
        'points x 3 embeddings (quick: DATA, + IGNORE for the bare character; thorough: DATA, '
        'IGNORE, AUX); (b) all short strings over a '
        '15-character hostile alphabet x 3-4 tags; (c) full product of single entries and all '
        'ordered entry lists (with repetition) over a 14-entry menu, unsorted and sorted dump; '
        '(d) every text of C09 families A and D (thorough: also C and B up to length 5) accepted '
        'by the real parser; (e) the lists of (c) '
        'through plain/gz/bz2/lzma/xz files; (g) all ordered pairs of a per-tag menu on one '
        're-used entry object; (h) the full product count-of-characters-needing-escaping n in '
        '{1, 2, 31, 32, 33, 34, 64, 100, 300} (thorough: 25 counts up to 1000) x 8 (thorough: '
        '16) characters that need escaping x 3 layouts (c*n, p c*n p, (p c)*n p) + 3 mixed '
        'layouts over all of them, x the 7 path-carrying tags x 6 codecs (StringIO, plain, gz, '
        'bz2, lzma, xz), same oracle as (c)/(e) (thorough: unsorted and sorted dump).  '
        'One evaluation = one entry list (or accepted text) '
        'pushed through dump -> load -> dump plus the cross-checks against the reference '
        'parser/writer.  Distinct-case descriptor: (a) (embedding, tag, code point >> 12) - a '
        '4096-code-point block, to bound memory; (b) (tag, string); (c) the entry / the entry '
        'index sequence + sort flag; (d) C09\'s descriptor of the text; (e) (format, entry index '
        'sequence, sort flag); (g) the pair of entries; (h) (codec, tag, layout, character, n, '
        'sort flag).  A descriptor is non-trivial when a real dump+load round trip was '
        'executed and compared for it (for (d): the text was accepted by the parser and contains '
        'at least one entry).')
ASSUMPTIONS = [
    'gverif/refmanifest.py (independent parser/writer/escaper) is trusted for the cross-'
    'implementation checks; where it answers DONT_CARE for gemato\'s own output (NUL or '
    'non-normalised path, surrogates, non-canonical timestamp digits) only the gemato->gemato '
    'round trip is judged',
    'inputs exclude what the statement excludes or is silent about: empty and absolute paths, '
    'DIST names with "/", negative sizes, checksum names/values containing whitespace, '
    'timestamps with microseconds or tzinfo',
    'lone surrogates U+D800..DFFF: the text-level round trip through io.StringIO is checked; '
    'a UnicodeEncodeError when writing them to a UTF-8 file is DONT_CARE',
    'family (e) trusts CPython gzip/bz2/lzma (gverif.treemodel.compress/decompress) as the '
    'independent (de)compressor; files live on tmpfs scratch only',
    'family (d) inherits the text space of C09 (families A and D)',
    'family (h) bounds the number of characters needing escaping in ONE path by 300 (quick) / '
    '1000 (thorough) at the listed counts only (1, 2 and the neighbourhoods of 32 and, in the '
    'thorough tier, of every power of two up to 256); the path has no "/" so that it is also a '
    'valid DIST name; one entry per Manifest',
]

FMTS = (None, 'gz', 'bz2', 'lzma', 'xz')


# ---------------------------------------------------------------- entries

def mk_entry(spec):
    """spec (reference-style tuple) -> gemato entry object.
    ('TIMESTAMP', (y, m, d, H, M, S)) | ('IGNORE', path) | (tag, path, size, ((name, value), ...))
    For AUX the path is the path as written (without files/)."""
    tag = spec[0]
    if tag == 'TIMESTAMP':
        return ManifestEntryTIMESTAMP(datetime.datetime(*spec[1]))
    if tag == 'IGNORE':
        return ManifestEntryIGNORE(spec[1])
    if tag == 'AUX':
        return ManifestEntryAUX(spec[1], spec[2], dict(spec[3]))
    return new_manifest_entry(tag, spec[1], spec[2], dict(spec[3]))


def spec_key(spec):
    tag = spec[0]
    if tag == 'TIMESTAMP':
        return ('TIMESTAMP', tuple(spec[1]) + (0, None))
    if tag == 'IGNORE':
        return ('IGNORE', spec[1])
    if tag == 'AUX':
        return (tag, 'files/' + spec[1], spec[1], spec[2], tuple(sorted(spec[3])))
    return (tag, spec[1], None, spec[2], tuple(sorted(spec[3])))


def ekey(e):
    """gemato entry -> field-wise comparable tuple (same shape as spec_key)."""
    tag = e.tag
    if tag == 'TIMESTAMP':
        t = e.ts
        return ('TIMESTAMP', (t.year, t.month, t.day, t.hour, t.minute, t.second,
                              t.microsecond, t.tzinfo))
    if tag == 'IGNORE':
        return ('IGNORE', e.path)
    size = e.size if type(e.size) is int else ('not-int', repr(e.size))
    return (tag, e.path, e.aux_path if tag == 'AUX' else None, size,
            tuple(sorted(e.checksums.items())))


def ref_entry(spec):
    if spec[0] == 'TIMESTAMP':
        return ('TIMESTAMP', '%04d-%02d-%02dT%02d:%02d:%02dZ' % tuple(spec[1]))
    if spec[0] == 'IGNORE':
        return spec
    return (spec[0], spec[1], spec[2], tuple(sorted(spec[3])))


def n_fields(key):
    return 2 if key[0] in ('TIMESTAMP', 'IGNORE') else 3 + 2 * len(key[4])


# ---------------------------------------------------------------- gemato calls

def g_dump(entries, sort=False):
    m = ManifestFile()
    m.entries = list(entries)
    buf = io.StringIO()
    o = gem.call(m.dump, buf, sort=sort)
    return m, o, buf.getvalue()


def g_load(text):
    m = ManifestFile()
    o = gem.call(m.load, io.StringIO(text), verify_openpgp=False)
    return m, o


def cat_of(ch):
    return unicodedata.category(ch) if ch else None


def _first_diff_char(a, b):
    for x, y in zip(a, b):
        if x != y:
            return x
    return (a[len(b):len(b) + 1] or b[len(a):len(a) + 1] or None)


def diff_keys(got, want):
    """-> None | (field, category of the first differing expected character)"""
    if len(got) != len(want):
        return 'entry_count', None
    for g, w in zip(got, want):
        if g == w:
            continue
        if g[0] != w[0]:
            return 'tag', None
        if g[0] == 'TIMESTAMP':
            return 'ts', None
        if g[1] != w[1]:
            return 'path', cat_of(_first_diff_char(w[1], g[1]))
        if g[0] == 'IGNORE':
            return 'shape', None
        for k, name in ((2, 'aux_path'), (3, 'size'), (4, 'checksums')):
            if g[k] != w[k]:
                return name, None
    return None


def shape_problems(text, keys):
    """Line/field shape of dumped text for entries with the given keys (dump order).
    -> None | (what, category)"""
    n = len(keys)
    if text.count('\n') != n or (n and not text.endswith('\n')) or (not n and text):
        return 'line_count', _ws_cat(text.replace('\n', ''))
    lines = text.split('\n')[:-1] if n else []
    for line, key in zip(lines, keys):
        fields = line.split(' ')
        for f in fields:
            if not f:
                return 'empty_field', None
            if f != f.strip() or len(f.split()) != 1:
                return 'whitespace_in_field', _ws_cat(f)
        if len(fields) != n_fields(key):
            return 'field_count', None
    return None


def _ws_cat(s):
    for ch in s:
        if ch.isspace() or ch in '\x1c\x1d\x1e\x1f\x85\u2028\u2029':
            return cat_of(ch)
    return None


def _offending_line(text):
    """First line of text that the real parser rejects on its own -> reference verdict on it."""
    for line in text.split('\n'):
        if not line.strip():
            continue
        _m, o = g_load(line + '\n')
        if o['kind'] == 'exc':
            v = rm.parse(line + '\n')
            return v[0] if v[0] == 'ok' else f'{v[0]}:{v[1]}'
    return 'no single line'


def unrepresentable_surrogate(path):
    return any(0xD800 <= ord(c) <= 0xDFFF and not 0xDC80 <= ord(c) <= 0xDCFF for c in path)


def exc_sig(check, o, **kw):
    sig = {'check': check, 'exc': o['exc']}
    if o.get('class') == 'internal':
        sig['where'] = o.get('where')
    sig.update(kw)
    return sig


# ---------------------------------------------------------------- the round-trip core

def roundtrip(entries, want, sort, stats, ref_want=None):
    """entries: gemato entry objects; want: their expected keys (same order);
    ref_want: reference tuples (same order) or None (skip the cross-implementation checks).
    -> list of (sig, message)."""
    out = []
    tr = 0
    if any(isinstance(getattr(e, 'path', None), str) and unrepresentable_surrogate(e.path) for e in entries):
        # a str holding a lone surrogate other than U+DC80..U+DCFF (surrogateescape of an undecodable
        # filename byte) is neither a file name nor the decoding of any accepted Manifest text, and
        # it is no "Unicode character": the statement does not reach it
        stats.dontcare['path holds a surrogate that is not a surrogateescape byte'] += 1
        return out
    m, o, text = g_dump(entries, sort)
    tr += 1
    if o['kind'] == 'exc':
        stats.transitions += tr
        stats.outcomes['dump/' + gem.brief(o)] += 1
        return [(exc_sig('dump_raised', o, sort=sort),
                 f'dump(sort={sort}) raised {o["exc"]} ({o.get("msg", "")}) for {want!a}')]
    # dump order (sort=True replaces m.entries by the sorted list of the same objects)
    order = list(range(len(entries)))
    if sort:
        pos = {id(e): i for i, e in enumerate(entries)}
        try:
            order = [pos[id(e)] for e in m.entries]
        except KeyError:
            order = None
        if order is None or sorted(order) != list(range(len(entries))):
            stats.transitions += tr
            return [({'check': 'sort_lost_entries'},
                     f'sort=True lost or replaced entry objects of {want!a}')]
    want_d = [want[i] for i in order]
    sp = shape_problems(text, want_d)
    if sp:
        out.append(({'check': 'dump_line_shape', 'what': sp[0], 'cat': sp[1]},
                    f'dumped text {text!a} violates the one-line/single-space shape '
                    f'({sp[0]}, char category {sp[1]}) for {want_d!a}'))
    m2, o2 = g_load(text)
    tr += 1
    label = 'load(dump)/' + gem.brief(o2)
    if o2['kind'] == 'exc':
        ref = _offending_line(text)
        out.append((exc_sig('load_of_dump_rejected', o2, ref=ref),
                    f'parser rejects the writer\'s own output {text!a} with {o2["exc"]} '
                    f'(entries {want_d!a}; reference on the offending line: {ref})'))
    else:
        got = [ekey(e) for e in m2.entries]
        d = diff_keys(got, want_d)
        if d:
            out.append(({'check': 'roundtrip_mismatch', 'field': d[0], 'cat': d[1]},
                        f'load(dump(E)) != E: field {d[0]}: wrote {want_d!a} as {text!a}, '
                        f'read {got!a}'))
        _m3, o3, text3 = g_dump(m2.entries, False)
        tr += 1
        if o3['kind'] == 'exc':
            out.append((exc_sig('dump_raised', o3, sort=False, second=True),
                        f'second dump raised {o3["exc"]} for {text!a}'))
        elif text3 != text:
            out.append(({'check': 'second_dump_differs'},
                        f'dump(load(t)) != t for t = {text!a}: {text3!a}'))
    if ref_want is not None:
        rw = [ref_want[i] for i in order]
        v = rm.parse(text)
        if v[0] == 'ok':
            if v[1] != rw:
                out.append(({'check': 'ref_reads_differently'},
                            f'reference parser reads gemato output {text!a} as {v[1]!a}, '
                            f'written from {rw!a}'))
        elif v[0] == 'reject':
            out.append(({'check': 'ref_rejects_gemato_output', 'reason': v[1]},
                        f'reference parser rejects gemato output {text!a}: {v[1]}'))
        else:
            stats.dontcare['ref on gemato output: ' + v[1]] += 1
        if not sort:
            t2 = rm.write(ref_want)
            m4, o4 = g_load(t2)
            tr += 1
            if o4['kind'] == 'exc':
                vv = rm.parse(t2)
                if vv[0] == 'ok':
                    out.append((exc_sig('gemato_rejects_ref_output', o4),
                                f'gemato rejects reference-written {t2!a} with {o4["exc"]}'))
                else:
                    stats.dontcare[f'ref writer output is {vv[0]} for ref parser: {vv[1]}'] += 1
            else:
                got4 = [ekey(e) for e in m4.entries]
                d = diff_keys(got4, want)
                if d:
                    out.append(({'check': 'gemato_misreads_ref_output', 'field': d[0], 'cat': d[1]},
                                f'gemato reads reference-written {t2!a} as {got4!a}, '
                                f'expected {want!a}'))
    stats.transitions += tr
    stats.outcomes[label] += 1
    return out


def check_specs(specs, sort, stats):
    entries = [mk_entry(s) for s in specs]
    want = [spec_key(s) for s in specs]
    refw = [ref_entry(s) for s in specs]
    stats.evaluations += 1
    stats.compared += 1
    return roundtrip(entries, want, sort, stats, refw)


def check_text_fixed_point(text, stats):
    """Family d.  -> (violations, accepted?, n_entries)"""
    m, o = g_load(text)
    stats.transitions += 1
    if o['kind'] == 'exc':
        stats.counters['d_texts_not_accepted'] += 1
        return [], False, 0
    stats.evaluations += 1
    stats.compared += 1
    want = [ekey(e) for e in m.entries]
    out = roundtrip(m.entries, want, False, stats, None)
    # cross-check with the reference only where it has a definite opinion on the input
    v = rm.parse(text)
    if v[0] == 'ok' and not out:
        _m, _o, t2 = g_dump(m.entries)
        v2 = rm.parse(t2)
        if v2[0] == 'ok' and v2[1] != v[1]:
            out.append(({'check': 'ref_reads_differently', 'family': 'd'},
                        f'reference reads {text!a} as {v[1]!a} but gemato\'s rewrite {t2!a} '
                        f'as {v2[1]!a}'))
        elif v2[0] == 'reject':
            out.append(({'check': 'ref_rejects_gemato_output', 'reason': v2[1]},
                        f'reference accepts {text!a} but rejects gemato\'s rewrite {t2!a}: {v2[1]}'))
    return out, True, len(want)


# ---------------------------------------------------------------- family e: files

def unrepresentable_surrogate(path):
    return any(0xD800 <= ord(c) <= 0xDFFF and not 0xDC80 <= ord(c) <= 0xDCFF for c in path)


def has_surrogate(specs):
    for s in specs:
        if s[0] != 'TIMESTAMP' and unrepresentable_surrogate(s[1]):
            return True
    return False


def check_file(specs, sort, fmt, scratch, stats):
    root = fresh_root(scratch)
    path = os.path.join(root, 'Manifest' + ('.' + fmt if fmt else ''))
    want = [spec_key(s) for s in specs]
    out = []
    compressed = fmt is not None
    stats.evaluations += 1
    _m, o0, text = g_dump([mk_entry(s) for s in specs], sort)
    if o0['kind'] == 'exc':
        stats.dontcare['e: StringIO dump raised (reported by family c)'] += 1
        return out
    _mm, o_txt = g_load(text)
    txt_out = [ekey(e) for e in _mm.entries] if o_txt['kind'] == 'ret' else ('exc', o_txt['exc'])

    def write():
        m = ManifestFile()
        m.entries = [mk_entry(s) for s in specs]
        with open_potentially_compressed_path(path, 'w', encoding='utf8') as f:
            m.dump(f, sort=sort)
    ow = gem.call(write)
    stats.transitions += 3
    if has_surrogate(specs):
        stats.dontcare['e: lone surrogate through a UTF-8 file (%s)' % gem.brief(ow)] += 1
        return out
    if ow['kind'] == 'exc':
        return [(exc_sig('file_write_raised', ow, compressed=compressed),
                 f'writing {want!a} through {fmt or "plain"} raised {ow["exc"]} ({ow.get("msg", "")})')]
    stats.compared += 1
    with open(path, 'rb') as f:
        raw = f.read()
    try:
        dec = treemodel.decompress(raw, fmt).decode('utf8')
    except Exception as e:              # noqa: BLE001 - any failure of the independent decoder
        return [({'check': 'file_not_decodable', 'compressed': compressed, 'exc': type(e).__name__},
                 f'{fmt or "plain"} file written by gemato cannot be decoded independently: {e!r}')]
    if dec != text:
        out.append(({'check': 'file_text_differs', 'compressed': compressed},
                     f'{fmt or "plain"} file holds {dec!a}, StringIO dump gives {text!a}'))

    def read(p):
        m = ManifestFile()
        with open_potentially_compressed_path(p, 'r', encoding='utf8') as f:
            m.load(f, verify_openpgp=False)
        return m
    p2 = os.path.join(root, 'Ref' + ('.' + fmt if fmt else ''))
    with open(p2, 'wb') as f:
        f.write(treemodel.compress(text.encode('utf8'), fmt))
    for which, p in (('gemato-written', path), ('independently compressed', p2)):
        orr = gem.call(read, p)
        stats.transitions += 1
        got = ([ekey(e) for e in orr['value'].entries] if orr['kind'] == 'ret'
               else ('exc', orr['exc']))
        stats.outcomes[f'e/{fmt or "plain"}/' + ('ret' if orr['kind'] == 'ret' else 'exc:' + orr['exc'])] += 1
        if got != txt_out:
            sig = {'check': 'file_load_differs', 'compressed': compressed,
                   'got': 'entries' if orr['kind'] == 'ret' else orr['exc']}
            if orr.get('class') == 'internal':
                sig['where'] = orr.get('where')
            out.append((sig, f'loading the {which} {fmt or "plain"} file gives {got!a}, loading '
                             f'the same text from StringIO gives {txt_out!a}'))
    return out


# ---------------------------------------------------------------- menus

_ONE = ['a', 'b', 'q', 'w', 'k']          # single-character names rotated by the seed


def alphabet_b(seed):
    a = _ONE[seed % len(_ONE)]
    return [a, '/', ' ', '\t', '\n', '\\', 'x', '4', '-', '\u0085', '\u00a0', '\u2028',
            '\u3000', '\u00fc', '\U0001F600']


TEN = tuple(c09._TEN)
CKSETS = [(), (('MD5', 'd41d8cd9'),), (('MD5', 'd41d8cd9'), ('SHA1', 'da39a3ee')),
          (('SHA1', 'da39a3ee'), ('MD5', 'd41d8cd9')), TEN]
SIZES = [0, 1, 2 ** 32, 2 ** 64]
FILE_TAGS = ('MANIFEST', 'DATA', 'DIST', 'EBUILD', 'MISC', 'AUX')
TS_CORNERS = [(1, 1, 1, 0, 0, 0), (10, 10, 10, 10, 10, 10), (100, 1, 1, 0, 0, 0),
              (999, 12, 31, 23, 59, 59), (1000, 1, 1, 0, 0, 0), (1969, 12, 31, 23, 59, 59),
              (1970, 1, 1, 0, 0, 0), (2017, 11, 5, 9, 8, 7), (2038, 1, 19, 3, 14, 8),
              (9999, 12, 31, 23, 59, 59)]


def paths_c(seed):
    n = _ONE[seed % len(_ONE)]
    d = _ONE[(seed + 1) % len(_ONE)]
    return [n, f'{d}/{n}', f'{n} {d}', f'{n}\\x41', '\u0085' + n, '\u00fc', '\U0001F600',
            f'{n}\t\n', '\u3000', f'files/{n}', f'{d}\\', '-----' + n + '-----', n + '\ud800']


def single_specs(seed):
    out = []
    ps = paths_c(seed)
    for tag in FILE_TAGS:
        for p in ps:
            if tag == 'DIST' and '/' in p:
                continue
            for sz in SIZES:
                for ck in CKSETS:
                    out.append((tag, p, sz, ck))
    out += [('IGNORE', p) for p in ps]
    out += [('TIMESTAMP', t) for t in TS_CORNERS]
    return out


def list_menu(seed):
    n = _ONE[seed % len(_ONE)]
    d = _ONE[(seed + 1) % len(_ONE)]
    return [
        ('TIMESTAMP', (2017, 11, 5, 9, 8, 7)),
        ('TIMESTAMP', (1000, 1, 1, 0, 0, 0)),
        ('IGNORE', d),
        ('IGNORE', f'{n} {d}'),
        ('DATA', n, 0, ()),
        ('DATA', n, 1, CKSETS[1]),
        ('DATA', f'{n} {d}', 2 ** 32, CKSETS[3]),
        ('MANIFEST', f'{d}/Manifest', 12, CKSETS[2]),
        ('DIST', n, 2 ** 64, TEN),
        ('EBUILD', n, 3, CKSETS[1]),
        ('MISC', '\u00fc', 4, ()),
        ('AUX', n, 5, CKSETS[1]),
        ('DATA', '\U0001F600', 6, CKSETS[1]),
        ('MISC', f'{n}\\x41', 7, ()),
    ]


def list_maxlen(tier):
    return 3 if tier == 'quick' else 4


def file_list_maxlen(tier):
    return 2 if tier == 'quick' else 3


def seqs_from(first, maxlen, n=14):
    yield (first,)
    for k in range(1, maxlen):
        for rest in itertools.product(range(n), repeat=k):
            yield (first,) + rest


# ---------------------------------------------------------------- family h: length

H_TAGS = FILE_TAGS + ('IGNORE',)
H_CODECS = ('stringio', None, 'gz', 'bz2', 'lzma', 'xz')
H_COUNTS_QUICK = (1, 2, 31, 32, 33, 34, 64, 100, 300)
H_COUNTS_THOROUGH = tuple(sorted(set(H_COUNTS_QUICK + (
    3, 8, 15, 16, 17, 30, 35, 63, 65, 127, 128, 129, 255, 256, 257, 1000))))
# characters the writer has to escape (whitespace, controls, backslash, surrogateescape byte)
H_CHARS_QUICK = (' ', '\\', '\t', '\n', '\x7f', '\u0085', '\u3000', '\udc80')
H_CHARS_THOROUGH = H_CHARS_QUICK + ('\x00', '\x0b', '\r', '\x1f', '\u00a0', '\u2028', '\u2029',
                                    '\udcff')
H_LAYOUTS = ('pure', 'run', 'sep')
H_MIXED = ('mix', 'mixsep', 'mixhex')


def h_counts(tier):
    return H_COUNTS_QUICK if tier == 'quick' else H_COUNTS_THOROUGH


def h_chars(tier):
    return H_CHARS_QUICK if tier == 'quick' else H_CHARS_THOROUGH


def h_path(layout, ci, n, tier, seed):
    """The path of family h: exactly n characters that need escaping."""
    p = _ONE[seed % len(_ONE)]
    chars = h_chars(tier)
    if layout == 'pure':
        return chars[ci] * n
    if layout == 'run':
        return p + chars[ci] * n + p
    if layout == 'sep':
        return (p + chars[ci]) * n + p
    if layout == 'mix':
        return ''.join(chars[i % len(chars)] for i in range(n))
    if layout == 'mixsep':
        return ''.join(p + chars[i % len(chars)] for i in range(n)) + p
    if layout == 'mixhex':
        return ''.join(chars[i % len(chars)] + 'x41' for i in range(n))
    raise ValueError(layout)


def h_patterns(tier):
    """-> [(layout, character index or None, n)]"""
    out = []
    for n in h_counts(tier):
        for ci in range(len(h_chars(tier))):
            out += [(lay, ci, n) for lay in H_LAYOUTS]
        out += [(lay, None, n) for lay in H_MIXED]
    return out


def h_sorts(tier):
    return (False,) if tier == 'quick' else (False, True)


def h_spec(tag, path):
    return ('IGNORE', path) if tag == 'IGNORE' else (tag, path, 2 ** 32 + 5, CKSETS[2])


def check_h(spec, sort, codec, scratch, stats):
    if codec == 'stringio':
        return check_specs([spec], sort, stats)
    return check_file([spec], sort, codec, scratch, stats)


# ---------------------------------------------------------------- shards

A_BLOCK = 0x8000


def shards(tier, seed):
    out = [('a', lo, min(lo + A_BLOCK, 0x110000)) for lo in range(0, 0x110000, A_BLOCK)]
    out += [('e3', fmt, i) for fmt in ('lzma', 'xz', 'bz2', 'gz', None) for i in range(14)]
    out += [('e1', fmt, tag) for fmt in FMTS for tag in FILE_TAGS + ('IGNORE+TS',)]
    out += [('d',) + s for s in c09.grammar_shards(tier)]
    out += [('d',) + s for s in c09.mutation_shards(tier, seed)]
    if tier == 'thorough':
        out += [('d',) + s for s in c09.c_shards(tier)]
        out += [('d',) + s for s in c09.b_shards('quick')]
    out += [('b', i) for i in range(15) if i != 1]
    out += [('c3', i) for i in range(14)]
    out += [('c1', tag) for tag in FILE_TAGS + ('IGNORE+TS',)]
    out += [('g', tag) for tag in FILE_TAGS + ('IGNORE', 'TIMESTAMP')]
    out += [('h', codec, tag) for codec in ('lzma', 'xz', 'bz2', 'gz', None, 'stringio')
            for tag in H_TAGS]
    return out


def _emit(stats, bad, case):
    for sig, msg in bad:
        stats.counters['viol ' + sigcap.sig_key(sig)] += 1
        if sigcap.admit(sig):
            stats.violation(sig, case, msg)


def setup(tier, seed, base):
    sigcap.setup()


def a_tags(form, tier):
    """Tags used in family a for embedding ``form`` (0 = bare character)."""
    if tier == 'thorough':
        return ('DATA', 'IGNORE', 'AUX')
    return ('DATA', 'IGNORE') if form == 0 else ('DATA',)


def _singles_for(tagsel, seed):
    for s in single_specs(seed):
        if (s[0] == tagsel) or (tagsel == 'IGNORE+TS' and s[0] in ('IGNORE', 'TIMESTAMP')):
            yield s


def run_shard(spec, tier, seed, scratch):
    stats = Stats()
    fam = spec[0]
    stats.counters['family_' + fam[0]] += 0
    if fam == 'a':
        _f, lo, hi = spec
        for blk in range(lo, hi, 0x1000):
            n_eval = 0
            for c in range(blk, min(blk + 0x1000, hi)):
                ch = chr(c)
                forms = ((0, ch), (1, 'a' + ch + 'b'), (2, '\\x4' + ch + '1'))
                for fi, p in forms:
                    if p.startswith('/'):
                        stats.counters['a_skipped_absolute'] += 1
                        continue
                    for tag in a_tags(fi, tier):
                        s = ('IGNORE', p) if tag == 'IGNORE' else (tag, p, 0, ())
                        bad = check_specs([s], False, stats)
                        n_eval += 1
                        if bad:
                            _emit(stats, bad, {'family': 'a', 'specs': [s], 'sort': False})
            for fi in range(3):
                for tag in a_tags(fi, tier):
                    stats.case(('a', fi, tag, blk >> 12), True)
            stats.counters['a_roundtrips'] += n_eval
        if lo == 0:
            stats.sample({'family': 'a', 'entry': ['DATA', '\\x4' + chr(0x85) + '1', 0, []],
                          'dumped': g_dump([mk_entry(('DATA', '\\x4\x851', 0, ()))])[2]})
    elif fam == 'g':
        tag = spec[1]
        if tag == 'TIMESTAMP':
            menu = [('TIMESTAMP', t) for t in [(2017, 1, 1, 0, 0, 0), (1, 1, 1, 0, 0, 0), (9999, 12, 31, 23, 59, 59),
                                               (2020, 2, 29, 12, 30, 59)]]
        elif tag == 'IGNORE':
            menu = [('IGNORE', p) for p in paths_c(seed)]
        else:
            ps = [p for p in paths_c(seed) if not (tag == 'DIST' and '/' in p)]
            menu = [(tag, p, sz, ck) for p in ps for sz, ck in ((0, CKSETS[0]), (7, CKSETS[2]))]
        menu = [m for m in menu if not (m[0] != 'TIMESTAMP' and unrepresentable_surrogate(m[1]))]
        for s1, s2 in itertools.permutations(menu, 2):
            bad = check_reuse(s1, s2, stats)
            stats.case(('g', s1, s2), True)
            if bad:
                _emit(stats, bad, {'family': 'g', 'specs': [s1, s2], 'sort': False})
        stats.sample({'family': 'g', 'tag': tag, 'pairs': len(menu) * (len(menu) - 1)})
    elif fam == 'b':
        alpha = alphabet_b(seed)
        first = alpha[spec[1]]
        L = 3 if tier == 'quick' else 4
        for n in range(1, L + 1):
            for rest in itertools.product(alpha, repeat=n - 1):
                p = first + ''.join(rest)
                tags = ['DATA', 'IGNORE', 'AUX'] + ([] if '/' in p else ['DIST'])
                for tag in tags:
                    s = ('IGNORE', p) if tag == 'IGNORE' else (tag, p, 1, CKSETS[1])
                    bad = check_specs([s], False, stats)
                    stats.case(('b', tag, p), True)
                    if bad:
                        _emit(stats, bad, {'family': 'b', 'specs': [s], 'sort': False})
        if spec[1] == 5:
            stats.sample({'family': 'b', 'entry': ['AUX', '\\x4', 1],
                          'dumped': g_dump([mk_entry(('AUX', '\\x4', 1, ()))])[2]})
    elif fam == 'c1':
        for s in _singles_for(spec[1], seed):
            for sort in (False, True):
                bad = check_specs([s], sort, stats)
                stats.case(('c1', s, sort), True)
                if bad:
                    _emit(stats, bad, {'family': 'c', 'specs': [s], 'sort': sort})
    elif fam == 'c3':
        menu = list_menu(seed)
        for seq in seqs_from(spec[1], list_maxlen(tier)):
            specs = [menu[i] for i in seq]
            for sort in (False, True):
                bad = check_specs(specs, sort, stats)
                stats.case(('c3', seq, sort), True)
                if bad:
                    _emit(stats, bad, {'family': 'c', 'specs': specs, 'sort': sort})
        if spec[1] == 8:
            specs = [menu[8], menu[0], menu[3]]
            stats.sample({'family': 'c', 'entries': specs, 'sort': True,
                          'dumped': g_dump([mk_entry(s) for s in specs], True)[2]})
    elif fam == 'd':
        sub = spec[1:]
        if sub[0] == 'A':
            gen = c09.grammar_texts(sub, seed)
        elif sub[0] == 'B':
            gen = c09.b_texts(sub, 'quick', seed)        # token sequences of length <= 5
        elif sub[0] == 'C':
            gen = c09.c_texts(sub, seed)
        else:
            gen = c09.mutation_texts(sub, seed, stats.counters)
        cur, cur_nt = None, False
        sampled = False
        for desc, text in gen:
            if desc != cur:
                if cur is not None:
                    stats.case(('d',) + cur, cur_nt)
                cur, cur_nt = desc, False
            stats.counters['d_texts'] += 1
            bad, accepted, n = check_text_fixed_point(text, stats)
            if accepted and n:
                cur_nt = True
                if not sampled and sub in (('A', 3, 1), ('D', 3, 'delete')) and n > 1:
                    sampled = True
                    stats.sample({'family': 'd', 'text': text,
                                  'rewritten': g_dump(g_load(text)[0].entries)[2]})
            if bad:
                _emit(stats, bad, {'family': 'd', 'text': text})
        if cur is not None:
            stats.case(('d',) + cur, cur_nt)
    elif fam == 'e1':
        _f, fmt, tagsel = spec
        for s in _singles_for(tagsel, seed):
            bad = check_file([s], False, fmt, scratch, stats)
            stats.case(('e1', fmt, s), True)
            if bad:
                _emit(stats, bad, {'family': 'e', 'specs': [s], 'sort': False, 'fmt': fmt})
    elif fam == 'e3':
        _f, fmt, first = spec
        menu = list_menu(seed)
        for seq in seqs_from(first, file_list_maxlen(tier)):
            specs = [menu[i] for i in seq]
            for sort in (False, True):
                bad = check_file(specs, sort, fmt, scratch, stats)
                stats.case(('e3', fmt, seq, sort), True)
                if bad:
                    _emit(stats, bad, {'family': 'e', 'specs': specs, 'sort': sort, 'fmt': fmt})
        if first == 6 and fmt == 'xz':
            stats.sample({'family': 'e', 'fmt': fmt, 'entries': [menu[6], menu[12]]})
    elif fam == 'h':
        _f, codec, tag = spec
        for lay, ci, n in h_patterns(tier):
            p = h_path(lay, ci, n, tier, seed)
            s = h_spec(tag, p)
            for sort in h_sorts(tier):
                bad = check_h(s, sort, codec, scratch, stats)
                stats.case(('h', codec, tag, lay, ci, n, sort), True)
                stats.counters['h_cases'] += 1
                stats.counters['h_cases_n=%d' % n] += 1
                stats.counters['h_cases_codec=%s' % (codec or 'plain')] += 1
                stats.outcomes['h: %s 32 characters to escape/%s' % (
                    'more than' if n > 32 else 'at most', 'violation' if bad else 'ok')] += 1
                if bad:
                    _emit(stats, bad, {'family': 'h', 'specs': [s], 'sort': sort, 'codec': codec,
                                       'n_to_escape': n, 'layout': lay})
        if codec == 'stringio' and tag == 'MISC':
            s = h_spec(tag, h_path('mixhex', None, 33, tier, seed))
            stats.sample({'family': 'h', 'entry': s, 'dumped': g_dump([mk_entry(s)])[2]})
    else:
        raise ValueError(spec)
    stats.counters['family_' + fam[0]] += 1
    return stats


# ---------------------------------------------------------------- replay

def _spec_from_json(s):
    s = list(s)
    if s[0] == 'TIMESTAMP':
        return ('TIMESTAMP', tuple(s[1]))
    if s[0] == 'IGNORE':
        return ('IGNORE', s[1])
    return (s[0], s[1], s[2], tuple(tuple(x) for x in s[3]))


def check_reuse(spec1, spec2, stats):
    """History on ONE entry object: dump, change every field to those of spec2 (same tag), dump again.
    The second dump must be exactly what a fresh entry built from spec2 dumps to (and must re-load)."""
    e = mk_entry(spec1)
    _m, o1, t1 = g_dump([e])
    fresh = mk_entry(spec2)
    _m, of, tf = g_dump([fresh])
    stats.evaluations += 1
    stats.transitions += 3
    if o1['kind'] == 'exc' or of['kind'] == 'exc':
        stats.dontcare['g: a single dump raised (reported by family c)'] += 1
        return []
    tag = spec2[0]
    if tag == 'TIMESTAMP':
        e.ts = fresh.ts
    elif tag == 'IGNORE':
        e.path = fresh.path
    else:
        e.path = fresh.path
        if tag == 'AUX':
            e.aux_path = fresh.aux_path
        e.size = fresh.size
        e.checksums = dict(fresh.checksums)
    _m, o2, t2 = g_dump([e])
    stats.compared += 1
    stats.outcomes['g:reuse/' + ('same' if t2 == tf else 'differs')] += 1
    if o2['kind'] == 'exc':
        return [(exc_sig('dump_raised', o2, reuse=True), f'second dump of a modified entry raised {o2["exc"]}')]
    if t2 != tf:
        return [({'check': 'dump_of_modified_entry_is_stale', 'tag': tag},
                 f'entry dumped as {t1!a}, then changed to {spec_key(spec2)!a}: dumped as {t2!a}, a fresh entry '
                 f'dumps as {tf!a}')]
    return []


def replay(case, scratch):
    stats = Stats()
    fam = case['family']
    if fam == 'g':
        bad = check_reuse(_spec_from_json(case['specs'][0]), _spec_from_json(case['specs'][1]), stats)
        return [{'sig': sig, 'case': case, 'message': msg} for sig, msg in bad]
    if fam == 'd':
        bad = check_text_fixed_point(case['text'], stats)[0]
    else:
        specs = [_spec_from_json(s) for s in case['specs']]
        if fam == 'h':
            bad = check_h(specs[0], case['sort'], case['codec'], scratch, stats)
        elif fam == 'e':
            bad = check_file(specs, case['sort'], case.get('fmt'), scratch, stats)
        else:
            bad = check_specs(specs, case['sort'], stats)
    return [{'sig': sig, 'case': case, 'message': msg} for sig, msg in bad]


def finish(total, tier):
    errs = []
    for f in 'abcdegh':
        if not total.counters.get('family_' + f):
            errs.append(f'vacuity: family {f} did not run')
    # '/' alone is skipped for every tag
    want_a = 0x110000 * 4 - 2 if tier == 'quick' else 0x110000 * 9 - 3
    if total.counters.get('a_roundtrips') != want_a:
        errs.append(f'family a executed {total.counters.get("a_roundtrips")} round trips, '
                    f'expected {want_a}')
    if not any(k.startswith('load(dump)/ret') for k in total.outcomes):
        errs.append('vacuity: no dumped text was ever re-loaded')
    for fmt in ('plain', 'gz', 'bz2', 'lzma', 'xz'):
        if not total.outcomes.get(f'e/{fmt}/ret'):
            errs.append(f'vacuity: nothing was read back through {fmt}')
    per_n = (len(h_chars(tier)) * len(H_LAYOUTS) + len(H_MIXED)) * len(H_TAGS) * len(H_CODECS) \
        * len(h_sorts(tier))
    for n in h_counts(tier):
        if total.counters.get('h_cases_n=%d' % n) != per_n:
            errs.append(f'family h executed {total.counters.get("h_cases_n=%d" % n)} cases with '
                        f'{n} characters to escape, expected {per_n}')
    for codec in H_CODECS:
        if not total.counters.get('h_cases_codec=%s' % (codec or 'plain')):
            errs.append(f'vacuity: family h explored nothing through {codec or "plain"}')
    for cls in ('at most', 'more than'):
        if not any(k.startswith('h: %s 32' % cls) for k in total.outcomes):
            errs.append(f'vacuity: family h has no case with {cls} 32 characters to escape')
    if not any(k.startswith('e: lone surrogate') for k in total.dontcare):
        errs.append('vacuity: the lone-surrogate DONT_CARE of family e was never met')
    return errs


def extra_evidence(total, tier):
    return {'space': {
        'a': '0x110000 code points x {c, a+c+b, \\x4+c+1} x tags '
             + ('DATA (+ IGNORE for the bare c)' if tier == 'quick' else 'DATA, IGNORE, AUX')
             + ' ("/" alone skipped)',
        'b': f'15-character alphabet, length 1..{3 if tier == "quick" else 4}, not starting with "/", '
             'tags DATA/IGNORE/AUX (+DIST when no "/")',
        'c': f'{len(single_specs(0))} single entries x sort in (False, True); all sequences of '
             f'length 1..{list_maxlen(tier)} over a 14-entry menu x sort in (False, True)',
        'd': 'C09 family A (grammar product) and family D (byte mutations'
             + (', incl. pairs on manifest 0) and families C (all escapes) and B (token '
                'sequences, length <= 5' if tier == 'thorough' else '') + '): accepted texts',
        'e': f'{len(single_specs(0))} single entries and all sequences of length '
             f'1..{file_list_maxlen(tier)} over the 14-entry menu (sorted and unsorted) x '
             'plain/gz/bz2/lzma/xz',
        'g': 'all ordered pairs of a per-tag menu on one re-used entry object',
        'h': f'n in {list(h_counts(tier))} characters to escape x ({len(h_chars(tier))} characters '
             f'{[c.encode("unicode_escape").decode() for c in h_chars(tier)]} x layouts '
             f'{list(H_LAYOUTS)} + mixed layouts {list(H_MIXED)}) x tags {list(H_TAGS)} x codecs '
             f'{[c or "plain" for c in H_CODECS]} x sort in {list(h_sorts(tier))} = '
             f'{len(h_patterns(tier)) * len(H_TAGS) * len(H_CODECS) * len(h_sorts(tier))} cases',
    }}
