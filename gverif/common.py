"""Shared small helpers for the harnesses."""

import os

from gverif.treemodel import Tree, wipe

FILE_NAMES = ['a', 'ab', 'b c', 'ü', 'b\\', 'q.x', 'files', 'Manifest.a']
DIR_NAMES = ['d', 'e f', 'dé', 'g\\', 'files', 'sub']
CONTENTS = [b'a', b'', b'b', b'aa', b'ab']
HASHSETS = [('SHA1',), (), ('MD5', 'SHA1'), ('BLAKE2B', 'SHA256')]


def rot(seq, k):
    seq = list(seq)
    if not seq:
        return seq
    k %= len(seq)
    return seq[k:] + seq[:k]


def fresh_root(scratch, name='t'):
    root = os.path.join(scratch, name)
    wipe(root)
    return root


def tree_from_case(case):
    return Tree.from_json(case['tree'])


def other_content(data, same_size):
    """A content different from ``data`` with equal / different length."""
    if same_size:
        if not data:
            return None
        return bytes([data[0] ^ 1]) + data[1:]
    return data + b'x'
