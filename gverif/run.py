"""Runner: python -m gverif.run C07 [--tier quick|thorough] [--replay F] [--jobs N]

exit 0  property held on everything explored (KNOWN-FINDING lines possible)
exit 1  VIOLATION property=<id> replay=<path>
exit 2  the harness itself is broken (nondeterminism leak, vacuity self-check)
"""

import argparse
import importlib
import json
import multiprocessing
import os
import shutil
import sys
import tempfile
import time
import traceback

_ENV = {'PYTHONHASHSEED': '0', 'PYTHONUTF8': '1', 'LC_ALL': 'C.UTF-8',
        'LANG': 'C.UTF-8', 'TZ': 'UTC', 'GEMATO_VERIF': '1',
        'PYTHONDONTWRITEBYTECODE': '1'}


def _reexec_if_needed():
    if all(os.environ.get(k) == v for k, v in _ENV.items()):
        return
    env = dict(os.environ)
    env.update(_ENV)
    os.execve(sys.executable, [sys.executable, '-m', 'gverif.run'] + sys.argv[1:], env)


def scratch_base():
    for cand in ('/dev/shm', tempfile.gettempdir()):
        if os.path.isdir(cand) and os.access(cand, os.W_OK):
            return cand
    return tempfile.gettempdir()


_W = {}


def _worker_init(modname, tier, seed, base):
    _W['mod'] = importlib.import_module(modname)
    _W['tier'] = tier
    _W['seed'] = seed
    d = os.path.join(base, f'w{os.getpid()}')
    os.makedirs(d, exist_ok=True)
    _W['scratch'] = d
    from gverif import evidence as _ev
    _findings = _ev.load_known_findings()
    _pid = _W['mod'].PID
    _ev.Stats.KNOWN = lambda sig: _ev.match_known(_pid, sig, _findings) is not None
    init = getattr(_W['mod'], 'worker_init', None)
    if init:
        init(tier, seed, d)


def _worker_run(spec):
    from gverif.evidence import Stats, TooManyViolations
    try:
        st = _W['mod'].run_shard(spec, _W['tier'], _W['seed'], _W['scratch'])
        return ('ok', st)
    except TooManyViolations as e:
        return ('ok', e.stats)
    except BaseException:
        st = Stats()
        return ('err', f'shard {spec!r}:\n{traceback.format_exc()}')


def main(argv=None):
    _reexec_if_needed()
    ap = argparse.ArgumentParser()
    ap.add_argument('pid')
    ap.add_argument('--tier', default=os.environ.get('VERIF_TIER') or 'quick',
                    choices=['quick', 'thorough'])
    ap.add_argument('--replay')
    ap.add_argument('--jobs', type=int, default=int(os.environ.get('VERIF_JOBS', '0')) or
                    min(16, os.cpu_count() or 1))
    ap.add_argument('--only', help='substring filter on shard repr (debugging; evidence marks non-exhaustive)')
    args = ap.parse_args(argv)
    pid = args.pid.upper()
    seed = int(os.environ.get('VERIF_SEED', '0') or 0)
    modname = f'gverif.props.{pid.lower()}'
    mod = importlib.import_module(modname)

    from gverif import evidence as ev
    from gverif.explore import NondeterminismLeak

    base = tempfile.mkdtemp(prefix=f'gverif-{pid}-', dir=scratch_base())
    t0 = time.time()
    try:
        if args.replay:
            with open(args.replay) as f:
                v = json.load(f)
            _worker_init(modname, args.tier, seed, base)
            got = mod.replay(ev.unjson(v['case']), _W['scratch'])
            if got:
                for g in got:
                    print(f'REPRODUCED {pid}: {g["message"]}')
                    print('  sig:', json.dumps(ev.jsonable(g['sig']), sort_keys=True))
                print(f'VIOLATION property={pid} replay={args.replay}')
                return 1
            print(f'NOT-REPRODUCED {pid}: case in {args.replay} satisfies the property now')
            return 0

        setup = getattr(mod, 'setup', None)
        try:
            if setup:
                setup(args.tier, seed, base)
            specs = list(mod.shards(args.tier, seed))
        except Exception:
            # the harness could not even build its fixtures: that decides nothing about the property
            print(f'HARNESS-ERROR {pid}: setup failed:\n{traceback.format_exc()}')
            return 2
        if args.only:
            specs = [s for s in specs if args.only in repr(s)]
        total = ev.Stats()
        errors = []
        if args.jobs > 1 and len(specs) > 1:
            ctx = multiprocessing.get_context('fork')
            cap = float(os.environ.get('VERIF_WALL_CAP') or (900 if args.tier == 'quick' else 4 * 3600))
            with ctx.Pool(min(args.jobs, len(specs)), _worker_init,
                          (modname, args.tier, seed, base)) as pool:
                it = pool.imap_unordered(_worker_run, specs, chunksize=1)
                done = 0
                aborted = 0
                while done < len(specs):
                    left = cap - (time.time() - t0)
                    try:
                        kind, res = it.next(timeout=max(left, 0.1))
                    except multiprocessing.TimeoutError:
                        # wall-clock cap: stop, report what the completed shards found and say so
                        total.capped = True
                        total.notes.append(f'wall cap {cap:.0f}s hit after {done} of {len(specs)} shards; '
                                           'the remaining shards were not explored')
                        pool.terminate()
                        break
                    done += 1
                    if kind == 'ok':
                        aborted += bool(res.capped)
                        total.merge(res)
                    else:
                        errors.append(res)
                    if aborted >= 2 * args.jobs:
                        # shard after shard drowns in violations: enough evidence, stop here
                        total.notes.append(f'{aborted} shards stopped early on too many violations; '
                                           f'run ended after {done} of {len(specs)} shards')
                        pool.terminate()
                        break
        else:
            _worker_init(modname, args.tier, seed, base)
            for s in specs:
                kind, res = _worker_run(s)
                if kind == 'ok':
                    total.merge(res)
                else:
                    errors.append(res)
        total.counters['shards'] = len(specs)

        # vacuity / self checks
        fin = getattr(mod, 'finish', None)
        if fin and not args.only:
            errors.extend(fin(total, args.tier) or [])

        # triage violations: confirm each twice by stand-alone replay, then
        # compare with the committed known-findings file
        findings = ev.load_known_findings()
        _worker_init(modname, args.tier, seed, base)
        new_violations = []
        known_lines = {}
        confirm_budget = int(os.environ.get('VERIF_CONFIRM', '12'))
        seen_sigs = set()
        for v in total.violations:
            sig = v['sig']
            key = json.dumps(sig, sort_keys=True)
            kf = ev.match_known(pid, sig, findings)
            if kf is not None:
                known_lines.setdefault(kf['id'], kf)
                continue
            if key in seen_sigs:
                continue
            seen_sigs.add(key)
            if confirm_budget > 0:
                confirm_budget -= 1
                try:
                    r1 = mod.replay(ev.unjson(v['case']), _W['scratch'])
                    r2 = mod.replay(ev.unjson(v['case']), _W['scratch'])
                except NondeterminismLeak as e:
                    errors.append(f'replay leak: {e}')
                    continue
                s1 = sorted(json.dumps(ev.jsonable(x['sig']), sort_keys=True) for x in r1)
                s2 = sorted(json.dumps(ev.jsonable(x['sig']), sort_keys=True) for x in r2)
                if s1 != s2 or key not in s1:
                    errors.append('violation did not reproduce identically on stand-alone '
                                  f'replay (harness nondeterminism): {v["message"]}\n'
                                  f'  sig={key}\n  replay1={s1}\n  replay2={s2}')
                    continue
            new_violations.append(v)

        wall = time.time() - t0
        exhaustive = not args.only
        evp = ev.write_evidence(
            pid, args.tier, seed, mod.LEVEL, total, wall, mod.RULE,
            list(mod.ASSUMPTIONS), len(new_violations),
            extra=(mod.extra_evidence(total, args.tier) if hasattr(mod, 'extra_evidence') else None),
            exhaustive=exhaustive)

        print(f'{pid} tier={args.tier} seed={seed}: executions={total.evaluations} '
              f'states={len(total.states)} transitions={total.transitions} '
              f'compared={total.compared} nontrivial={len(total.nontrivial)} '
              f'outcomes={len(total.outcomes)} dontcare={sum(total.dontcare.values())} '
              f'wall={wall:.1f}s evidence={evp}')
        for kf in known_lines.values():
            print(f'KNOWN-FINDING: property={pid} {kf["id"]}: {kf.get("summary") or kf["witness"]}')
        rc = 0
        if os.environ.get('VERIF_SUMMARY'):
            import collections
            c = collections.Counter(json.dumps(v['sig'], sort_keys=True) for v in total.violations)
            for k, n in sorted(c.items()):
                print(f'  SIG x{n}: {k}')
        for n, v in enumerate(new_violations):
            p = ev.write_replay(pid, n, v)
            print(f'  {v["message"]}')
            print(f'VIOLATION property={pid} replay={p}')
            rc = 1
        if total.capped and not new_violations and not known_lines:
            errors.append('wall-clock cap hit before the space was explored and no violation was found so far: '
                          'the property was NOT decided by this run')
        if errors:
            for e in errors:
                print(f'HARNESS-ERROR {pid}: {e}')
            rc = rc or 2
        return rc
    finally:
        shutil.rmtree(base, ignore_errors=True)


if __name__ == '__main__':
    sys.exit(main())
