"""Cross-shard limiter for violation records.

Some defects fire on hundreds of thousands of enumerated inputs spread over all shards,
while evidence.Stats keeps only a bounded number of violation records per shard and per
run.  To make sure that *every distinct signature* survives the merge, a harness asks
``admit(sig)`` before recording a violation: at most ``per_sig`` records per signature are
admitted over the whole run.  The table lives in anonymous shared memory created by
``setup()`` in the parent before the runner forks its workers; without ``setup()`` (single
process, replay) a process-local table is used.

Every violation is still *counted* by the caller (``stats.counters``); only the number of
written-out cases is limited.  Which concrete inputs become the representatives depends on
worker scheduling; the set of signatures does not.
"""

import hashlib
import json
import multiprocessing

_SLOTS = 1024
_keys = None
_counts = None
_lock = None
_local = {}


def setup():
    global _keys, _counts, _lock
    _keys = multiprocessing.Array('Q', _SLOTS, lock=False)
    _counts = multiprocessing.Array('i', _SLOTS, lock=False)
    _lock = multiprocessing.Lock()
    _local.clear()


def sig_key(sig):
    return json.dumps(sig, sort_keys=True, default=repr)


def admit(sig, per_sig=2):
    key = sig_key(sig)
    if _keys is None:
        n = _local.get(key, 0)
        _local[key] = n + 1
        return n < per_sig
    n = _local.get(key, 0)
    if n >= per_sig:                 # cheap local short-cut, no lock
        return False
    h = int.from_bytes(hashlib.blake2b(key.encode(), digest_size=8).digest(), 'big') | 1
    with _lock:
        i = h % _SLOTS
        for _ in range(_SLOTS):
            if _keys[i] == h:
                break
            if _keys[i] == 0:
                _keys[i] = h
                break
            i = (i + 1) % _SLOTS
        else:
            return True              # table full: admit (Stats has its own cap)
        c = _counts[i]
        if c >= per_sig:
            _local[key] = per_sig
            return False
        _counts[i] = c + 1
        return True
