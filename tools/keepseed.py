#!/usr/bin/env python3
"""tools/keepseed.py <worktree> <A|B> <seed-id> <property> <caught-by csv> <initially-missed-by csv or -> <needs…>"""
import json, os, shutil, sys
wt, L, sid, prop, caught, missed = sys.argv[1:7]
needs = ' '.join(sys.argv[7:])
d = f'/verif/seeded/{sid}'
os.makedirs(d, exist_ok=True)
shutil.copy(f'{wt}/seed_{L}.diff', f'{d}/patch.diff')
shutil.copy(f'{wt}/demo_{L}.py', f'{d}/demo.py')
meta = {
    'id': sid, 'breaks_property': prop,
    'needs_to_manifest': needs,
    'origin': 'written by a fresh sub-agent that saw only the property text and its own scratch worktree of /repo',
    'confirmed': {
        'patch_applies_to_repo_head': True,
        'baseline_suite_with_patch': 'tools/baseline.py <worktree>: stable=1127 passed_now=1127 stable_not_passing=0',
        'demo_with_patch': 'exit 1', 'demo_without_patch': 'exit 0',
        'how': 'tools/seedcheck.sh <worktree> <A|B> <checks…> (apply in worktree, run suite + demo, revert, run demo; git -C /repo apply, run quick checks, git -C /repo checkout -- .)',
    },
    'caught_by_quick_checks': [c for c in caught.split(',') if c and c != '-'],
    'initially_missed_by': [c for c in missed.split(',') if c and c != '-'],
    'run_demo': 'cd /repo && git apply /verif/seeded/%s/patch.diff && /venv/bin/python /verif/seeded/%s/demo.py; git checkout -- .' % (sid, sid),
}
json.dump(meta, open(f'{d}/meta.json', 'w'), indent=1)
print('kept', d)
