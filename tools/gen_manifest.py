#!/usr/bin/env python3
"""Regenerate /verif/MANIFEST.json from the table below (keeps it schema-valid)."""
import json, os, sys
V = os.path.dirname(os.path.dirname(os.path.abspath(__file__)))
PY = '/venv/bin/python'

CHECKS = {
 'C01': dict(level='model_checking',
   technique='stateless bounded-exhaustive exploration of real verify (lib+CLI) over trees x layouts x mutation sets vs reference verdict',
   text='All small trees (<=4 files, <=3 dirs) x Manifest layouts (nesting, 5 compression formats, sibling Manifests, IGNORE look-alikes, hidden names, symlinks, last_mtime, string-prefix sibling directories as verified sub-paths) x all mutation sets of size <=1 (quick) / <=2 (thorough); duplicate entries in every tag pair / hash-set relation / placement, duplicates whose individual hash values are independently right or wrong, duplicate MANIFEST entries for one sub-Manifest; directory verification (library and CLI) and single-path verification are compared with an independent three-valued reference verdict.',
   note='Trusted: gverif/refverify.py + refmanifest.py (reference), CPython os/hashlib/compression modules. Small-scope bounds as stated in evidence; tmpfs only.',
   ref='DESIGN.md §3 C01'),
 'C02': dict(level='model_checking',
   technique='bounded-exhaustive exploration of tamper x recompute-level x compression x API on the real loader vs first-broken-link oracle',
   text='All Manifest chains of depth <=3 (quick) / <=5 (thorough) x compression assignments x MANIFEST hash sets x sibling Manifest variant x every tampered object (changed/same-size/added/removed file, DIST line) at level j x every level k<=j up to which all Manifests are recomputed consistently; each case is a history at one path (the untampered tree is queried first, then tampered in place); every one of the five consumer APIs is queried on a fresh loader and again on ONE loader object in both query orders, and must raise ManifestMismatch naming the first broken link iff its answer depends on it, else answer as on the untampered tree; a link whose parent records only uncomputable hash names must make every dependent query fail.',
   note='Trusted: reference writer (gverif/refmanifest.py, treemodel.py) that plays the attacker; untampered and fully recomputed trees pin the harness. Depth 4-5 use rotations, not all 5^d assignments.',
   ref='DESIGN.md §3 C02'),
 'C07': dict(level='model_checking',
   technique='bounded-exhaustive exploration of all discrepancy sets x handler policies x scandir orders on real keep-going verify vs reference offender multiset',
   text='Every assignment of {ok, missing, altered, resized, replaced-by-directory} to <=4 (quick) / <=6 (thorough) listed files in several directories x stray-file sets (incl. strays named like a Manifest) x listed files in hidden directories beneath sub-paths x every verified sub-path x 5 handler policies x 2 directory enumeration orders; the multiset of paths passed to the handler (and logged by gemato verify -k) must equal the reference offender set, the result must be False iff a handler call returned False, and no file descriptor may be lost per offender.',
   note='Trusted: gverif/refverify.py offender set; os.scandir order seam (monkeypatch). Offenders under IGNOREd paths or beneath a directory that replaced a listed file are DONT_CARE.',
   ref='DESIGN.md §3 C07'),
 'C03': dict(level='model_checking',
   technique='bounded-exhaustive exploration of prior Manifest state x edit x options x target x interface (+ two-round histories) on real update/save vs reference exact-coverage predicate',
   text='Every prior Manifest state of a 45-entry menu (absent, flat, nested x compression, equal/sub/super/disjoint and stale duplicates, parent+child duplicates, unregistered valid/invalid/compressed Manifests, several Manifests per directory, same-directory chains, IGNORE, entry naming a directory) x 8 edits x option combinations x whole-tree and sub-directory targets x library and CLI, plus all two-round edit/update histories; after every update that completes, the disk is re-read by the reference parser and must describe the updated directory exactly (each file once, true size/digests, requested hashes, chain intact) and a fresh gemato verify must succeed.',
   note='Trusted: gverif/refverify.py + refmanifest.py. One base tree (4 files, 3 directories). Updates that raise are not judged here (C10/C18). Two genuine defects are listed in known_findings.json (one pinned by an existing test, one not small to repair).',
   ref='DESIGN.md §3 C03'),
 'C04': dict(level='model_checking',
   technique='exhaustive enumeration of line-class sequences through the real load() vs a reference clear-sign acceptor; exhaustive single-mutation differential against real gpg',
   text='Part A: every sequence of <=5 (quick) / <=6 (thorough) lines over 14 concrete line classes, with/without final newline, verification off / accepting / rejecting recording backend (3.3M / 47M loads) is fed to the real ManifestFile.load and compared with a reference acceptor written from the statement and RFC 4880 (entries, exact text handed to verify_file, signed flag, exception class); all 70 implementation (state x class) pairs must be exercised. Part B: every single textual mutation from a fixed menu of six Manifests genuinely clear-signed with gpg (incl. --not-dash-escaped) is loaded with the real backend; whenever load succeeds, gpg must accept the same text and the reference-parsed entries of the cleartext gpg outputs must equal the loaded entries.',
   note='Trusted: gverif/c04ref.py (reference acceptor), refmanifest.py, GnuPG 2.2.40 as the authority on what was authenticated. Arguable documents (whitespace-suffixed armor lines, opaque header/signature content, END line without newline) are judged under every defensible reading and only counted DONT_CARE when the readings disagree.',
   ref='DESIGN.md §3 C04'),
 'C10': dict(level='model_checking',
   technique='explicit-state BFS over operation histories on the real loader/CLI with canonical state hashing; write-audit and snapshot invariants on every transition',
   text='From 6 base states, all histories of <=4 (quick) / <=5 (thorough) operations over a 27-operation alphabet (loader lifecycle, verify/lookups, directory/single-path updates incl. ones that fail part-way through invalid path, symlink loop or injected OSError and a single-path update of a path named like a DIST entry, five save variants, CLI commands, tree edits); base states hold DIST entries named like local files and string-prefix sibling directories are executed; on every transition: no data file changes, no write-type audit event and no Manifest change outside a save, and across saves DIST/IGNORE/TIMESTAMP lines, entry tags and out-of-scope entries are preserved per logical Manifest.',
   note='Trusted: sys.addaudithook write events + lstat/byte snapshots; reference parser for Manifest comparison. A loader is discarded when another actor (CLI update) rewrites Manifests (single-actor property).',
   ref='DESIGN.md §3 C10'),
 'C08': dict(level='exploration',
   technique='exhaustive enumeration (all 1,114,112 code points x 3 contexts, all short strings over a hostile alphabet, entry-list products, all gemato-accepted C09 texts, 4 codecs) of dump/load on the real writer and parser, cross-checked with an independent reference writer/parser',
   text='Every Unicode code point alone and between hex-digit-like neighbours, every string of length <=3 (quick) / <=4 (thorough) over a 15-character hostile alphabet, products of all 8 tags x paths x sizes x checksum sets x corner timestamps, all orders of <=3 entries sorted and unsorted, every text accepted in the C09 enumeration (fixed point), and the entry lists again through plain/gz/bz2/lzma/xz files: load(dump(E)) == E field-wise, one line per entry with single-space separators and no whitespace-like character inside a field, second dump byte-identical, and agreement in both directions with gverif/refmanifest.py.',
   note='Trusted: gverif/refmanifest.py (independent writer/parser). Lone surrogates through UTF-8 files are DONT_CARE. Lists are drawn from a fixed 14-entry menu, not the full product cubed.',
   ref='DESIGN.md §3 C08'),
 'C09': dict(level='exploration',
   technique='exhaustive enumeration of a line-grammar product, all token sequences up to a length bound, every escape value, and all single byte mutations, through the real load() vs a three-valued reference parser',
   text='13.7M (quick) / 111M (thorough) texts: the full field-wise product of valid and invalid tag/path/size/checksum/extra/timestamp forms, every sequence of <=5 / <=6 tokens over a 12-token alphabet split into lines every way, every \\xHH, \\uHHHH and \\UHHHHHHHH value up to 0x110FFF plus sparse 32-bit values in both hex cases and three contexts, and every single byte mutation (16 bytes x delete/duplicate/replace/insert) of five valid Manifests. Accept/reject and the exact entries must agree with the reference parser; no exception type other than ManifestSyntaxError/ManifestUnsignedData may escape for any text, DONT_CARE ones included.',
   note='Trusted: gverif/refmanifest.py. DONT_CARE (accept/reject only): non-ASCII whitespace in a line, bare CR, unusual integer literals, duplicate checksum names, surrogate escapes, non-normalised paths, non-canonical timestamp spellings. Armor lines are left to C04.',
   ref='DESIGN.md §3 C09'),
 'C12': dict(level='model_checking',
   technique='bounded-exhaustive exploration: update run twice under a write-audit seam; update run under every scandir permutation product and every permutation of prior Manifest lines (owned os.scandir order and clock)',
   text='Idempotence: prior state x edit x options x target x interface, the identical update is repeated and must cause no write event and leave every Manifest with the same bytes and mtime. Canonicity (sort on, one Manifest per directory): for 14 prior states x 5 edits x 3 option sets the update is run under the full product of per-directory scandir permutations (directories with <=4/5 names: all permutations) and under every permutation of the lines of each pre-existing Manifest, with a fake advancing clock; every Manifest a run writes must be byte-identical across all runs whose unwritten Manifests are identical.',
   note='Trusted: os.scandir/time.time monkeypatch seams, sys.addaudithook. Directories or Manifests with more names/lines than the bound use rotations, reversal and adjacent transpositions (noted in evidence). Known finding: equal duplicate entries (see C03).',
   ref='DESIGN.md §3 C12'),
 'C15': dict(level='model_checking',
   technique='DFS enumeration of all Manifest/IGNORE chains up to depth 4 (6 thorough) x start x flags x device boundary on the real find_top_level_manifest vs reference upward walk',
   text='Every chain of up to 4 (quick) / 6 (thorough) nested directories where each level independently has no Manifest, a plain or a compressed one (gz everywhere; bz2/lzma/xz, plain+gz pairs, empty Manifests, entries preceding IGNOREs at one level) with every IGNORE option (next component, deeper prefixes, exact start, sibling, shorter and longer string-prefix look-alikes), every start depth and spelling, allow_compressed on/off and a device boundary above any level with allow_xdev on/off: 840k (quick) / 5.2M (thorough) calls compared with a reference model of the upward walk.',
   note='Trusted: the reference walk in the harness, refmanifest writer. The device boundary is virtual (st_dev shifted by an os proxy installed into gemato.find_top_level; cross-checked once against real tmpfs mounts in a private mount namespace); a Manifest symlinked from another real filesystem covers the fstat check. DONT_CARE: plain+compressed pair in one directory; non-IGNORE entry for the start path before an IGNORE.',
   ref='DESIGN.md §3 C15'),
 'C17': dict(level='exploration',
   technique='exhaustive enumeration of content lengths in the stated windows x hash names x size hints x read schedules (all compositions for n<=10) on the real hash_file/get_file_metadata/CLI vs one-shot hashlib and coreutils',
   text='Every length 0..300 and +-2 around 64 KiB, 128 KiB and 1 MiB (thorough: 2 MiB) with a position-dependent pattern x 41 name sets (10 Manifest names, unknown names, every parameterless hashlib name, groups, mixes) x 6 size hints x read schedules delivered by a scripted raw stream (all 2^(n-1) compositions for n<=10; 1/2/3/7/4096/65535/65536/65537-byte steps, halving, one short read at every position around each threshold) through hash_file, hash_path, get_file_metadata and gemato hash: digest == one-shot digest of the algorithm the name denotes (independent table, cross-checked with md5sum/sha1sum/sha256sum/sha512sum/b2sum), size == length, unsupported names -> UnsupportedHash only.',
   note='Trusted: CPython hashlib one-shot digests, coreutils as second opinion, refmanifest.HASHES table. Quick tier thins schedules at >=1 MiB (stated in evidence rule). Not covered: would-block reads, real pipes, lengths between the windows.',
   ref='DESIGN.md §3 C17'),
 'C06': dict(level='fault_enumeration',
   technique='exhaustive single-fault enumeration: every environment call of the fault-free run x every errno, plus persistent per-object faults, injected by an owned os/open seam into real verify and update scans',
   text='For 13 corpus trees (flat, nested and compressed Manifests, sibling and same-directory chains, IGNOREd and hidden parts, file and directory symlinks, unregistered Manifests, trees with a stray file) x 8 operations (library/CLI verify, keep-going library/CLI verify, sub-directory verify, single-path verify, library update scan, CLI update) the fault-free run is recorded call by call; then each call index x each of 8 errnos fails once (26k runs quick; thorough adds all pairs on the smallest tree) and each object fails persistently. A fault on an object outside hidden/IGNOREd subtrees must end in an OSError, a library error or a failing status - never success, never an existing object reported as missing - with the tree byte-identical afterwards and no descriptor left open.',
   note='Trusted: the monkeypatch seam (os.open/stat/fstat/scandir, DirEntry proxies, builtins.open with a raw read proxy). The kernel is not involved; ENOENT and the save phase are excluded. DONT_CARE: transient DirEntry.is_dir() failures that os.walk itself absorbs when the same object is opened/listed successfully later in the run.',
   ref='DESIGN.md §3 C06'),
 'C13': dict(level='model_checking',
   technique='exhaustive enumeration of all 5^3 compression assignments x mutations x APIs (result invariance) and of start assignment x boundary watermarks x formats x forced/unforced saves plus all save sequences of length <=3 (4 thorough) on the real save_manifests under a write-audit seam',
   text='Transparency: one tree with three sub-Manifests under all 125 assignments of {plain, gz, bz2, lzma, xz} x 6 tree mutations x 22 verification/lookup queries - the observation must not depend on the assignment. Watermark: 5 start assignments x every watermark in {0, s-1, s, s+1 for each uncompressed size s, max+1} x 4 target formats x forced/unforced x edits, and every sequence of <=3 (4) saves over a 6-step alphabet (re-compression in both directions), each with a fresh loader per step and with ONE loader across the sequence: every rewritten sub-Manifest is compressed iff its uncompressed size >= watermark, compressed files keep their format, the top-level Manifest stays plain, one file per logical Manifest, the tree verifies (reference and gemato).',
   note='Trusted: gverif/refverify.py, sys.addaudithook to observe which Manifests a save wrote. Manifests not rewritten by an unforced save are DONT_CARE. old-ebuild package Manifests are judged under C19.',
   ref='DESIGN.md §3 C13'),
 'C14': dict(level='model_checking',
   technique='exhaustive enumeration of the option product (sign option x original state x key id x signer behaviour x layout x contents x change/forced x interface) on the real update/save with a scripted gpg (fake subprocess) and with real gpg',
   text='The full product sign option {unset,on,off} x top-level {signed+verified, unsigned, signed but unverified, signed by a previous gemato run} x key id {explicit, default} x signer {works, exits non-zero, binary missing, secret key missing} x 4 layouts x 3 content classes (incl. names needing escapes and armor look-alike file names) x {real change, forced save} x {library, CLI}, plus compressed/renamed top-level variants: 7k (quick) / 33k (thorough) update+save runs against a scripted clear-sign backend that records argv and stdin, and against real gpg with two keys. Signed iff requested or originally signed+verified; signed cleartext = written entries = what the tree needs; verifies with the expected key; sub-Manifests never contain armor; signer failure raises / exits 1 and never leaves a plain Manifest with the new entries.',
   note='Trusted: the harness envelope parser, refmanifest/refverify, GnuPG 2.2.40 for the real half; the scripted scheme is a toy that checks framing only. Observed and noted (not a violation of the statement): on signer failure the top-level file is left empty.',
   ref='DESIGN.md §3 C14'),
 'C18': dict(level='exploration',
   technique='exhaustive enumeration of the union of the C01/C03/C09 case spaces plus named odd corners through the real CLI in-process with an escaping-exception classifier and OSError attribution',
   text='Every tree of the C01 families, every C03 prior state x edit, the C09 line-grammar product installed as top-level Manifest, and 45 named odd corners (duplicate IGNORE, unknown/unsupported hash names, out-of-range/surrogate/NUL escapes, entries naming directories or lying beneath files, self-referencing and cyclic MANIFEST entries, unreferenced Manifests in sub-directories and beside the top-level one, non-UTF-8 file names, old-ebuild files/ with stray Manifests...) are run through gemato verify, verify -k, update (whole tree and every sub-directory, three profiles, forced), create: 54k (quick) CLI runs. The only ways out of main() may be a return value, an argparse exit, a logged library error with status 1, or an OSError that re-issuing the call on its filename reproduces.',
   note='Trusted: the classifier in the harness. DONT_CARE: deliberate NotImplementedError for a now-ignored path; corrupt compressed Manifest streams. Two known findings (escaped NUL in a path - pinned by an existing test; unreferenced compressed Manifest beside the top-level one).',
   ref='DESIGN.md §3 C18'),
 'C05': dict(level='model_checking',
   technique='exhaustive enumeration of gpg status-line sequences x exit status through the real verify_file/load/loader/CLI with a scripted subprocess; full enumeration of a real-gpg configuration matrix and of all single-byte mutations of a signed text',
   text='Part A: every sequence of <=4 (quick, 505k) / <=5 (thorough, 10M) status lines over the 20 keywords real gpg emits x exit status {0,1,2} through the real SystemGPGEnvironment.verify_file (scripted Popen), all sequences of <=3 also through ManifestFile.load, ManifestRecursiveLoader and gemato verify with -s/-P; acceptance iff exit 0, GOODSIG, VALIDSIG, TRUST_ marginal/fully/ultimate, no EXPKEYSIG/REVKEYSIG; monotonicity checked directly by raising each TRUST_ line. Part B (real gpg 2.2.40): 17 key/message states x 7 owner-trust values x entry points, gemato verify -K -R with -s/-P, 4 contents of the user GNUPGHOME x 3 key files with byte snapshots of the user home, and every single-byte mutation (xor 1, xor 0x20, delete, duplicate) of a signed body.',
   note='Trusted: the acceptance predicate in the harness (restating the statement), GnuPG 2.2.40. Part B checks that every keyword gpg emits is in the Part A alphabet. DONT_CARE (must-accept direction only): several signatures in one run, extra failure keywords next to a satisfied predicate, status lines out of gpg order; mutations confined to trailing whitespace.',
   ref='DESIGN.md §3 C05'),
 'C11': dict(level='model_checking',
   technique='exhaustive enumeration of edit/update histories on twin replicas (incremental vs full) under an owned clock and three time zones, and of every in-flight edit point of a running update',
   text='Replica A (always update --incremental) and replica B (always full update) of one tree created with create -t; all histories of 2 (quick) / 3 (thorough) rounds over {modify same size, modify other size, touch, replace by equal content} x 3 files x mtime class {T-1, T, T+0.5, T+1 relative to the previous TIMESTAMP}, add, delete x TZ {UTC, east, west} x flat/nested layout x whole-second / fractional scan start, with gemato.cli.datetime replaced by a controlled clock: whenever every modified file is newer than the previous TIMESTAMP or changed size the Manifests must be equal; the TIMESTAMP written never exceeds the scan start. Second family: a file edited after the k-th per-file hash of a running update, for every (k, file), must be picked up by the next incremental run.',
   note='Trusted: the fake clock installed into gemato.cli (asserted: the TIMESTAMP written equals the fake instant), os.utime for all mtimes, refmanifest for comparison. DONT_CARE: same-size modification or added file with mtime <= previous TIMESTAMP; in-flight same-size edit within the whole second of the scan start.',
   ref='DESIGN.md §3 C11'),
 'C16': dict(level='model_checking',
   technique='exhaustive enumeration of all rooted directory shapes x all (n+1)^n directory-symlink sets x IGNORE placements x walkers under an iteration budget, plus a real second filesystem, vs a graph-model oracle',
   text='All unordered rooted trees on n<=4 (quick) / n<=5 (thorough) directories, each directory optionally holding one directory symlink to any directory (all (n+1)^n link sets: self, parent, ancestor, root, sibling, descendant, mutual pairs, chains, diamonds) x IGNORE on the link / on an ancestor / on paths reached through links x sub-path starts x 5 walkers (verify strict, verify keep-going, unregistered-Manifest scan, update+save+fresh verify, gemato create), each under a scandir-call budget that turns non-termination into a violation: loop back to an ancestor on the current path outside IGNOREd paths -> ManifestSymlinkLoop from every walker, otherwise termination with files behind links treated like any others. Second family on a REAL second filesystem (/dev/shm vs tempdir): foreign directory/file/empty dir/loop through the other device/equal inode number at every position x IGNORE x allow_xdev x library and CLI walkers -> ManifestCrossDevice iff crossing disallowed and not IGNOREd.',
   note='Trusted: the graph-model oracle in the harness (cross-checked against a disk DFS with real (st_dev, st_ino)); the equal-inode kind is the only virtual part (os proxy). DONT_CARE: which loop is reported first, the level of detection, sub-path starts that re-enter the tree root. Bound 5 directories (statement says up to 6); one link per directory.',
   ref='DESIGN.md §3 C16'),
 'C19': dict(level='model_checking',
   technique='exhaustive enumeration of repository shapes (component subsets x category/package grids) x profiles x overrides x create/edit/update sequences x scandir orders on the real create/update vs an independent restatement of the profile policy',
   text='3.2k (quick) / 74k (thorough) ebuild-repository-shaped trees: every subset of per-package components for a varying package on category x package grids, all-alike grids, every subset of metadata components and of the other repository-level components, look-alike extras; each created with the default, ebuild and old-ebuild profile (old-ebuild under sorted and reversed directory enumeration), with -H/-c/sort overrides incl. watermarks at S and S+1 for a real sub-Manifest size S, and followed by edit+update and profile-P-then-profile-Q sequences. Oracle: exact set of directories holding a Manifest, default IGNORE lines, entry tags (EBUILD/MISC/AUX under old-ebuild), package Manifests uncompressed, default hashes/sort/watermark 128, and verification with a default-profile loader (gemato and gverif/refverify).',
   note='Trusted: the policy restatement inside props/c19.py (does not import gemato.profile), refverify. DONT_CARE: trees where an IGNOREd-by-default name is already listed in a parent (deliberate NotImplementedError); AUX tag when the closest Manifest is not the package Manifest.',
   ref='DESIGN.md §3 C19'),
 'C20': dict(level='translation_validation',
   technique='exhaustive enumeration of repository shapes through the two generator scripts (as subprocesses), then reference verification, exact-coverage check, no-op update under a write-audit seam, and all edit sets up to size 2 (3) followed by update and verify',
   text='278 (quick) / 2019 (thorough) repositories: gen_fast_metamanifest on each whole repository and gen_fast_manifest on every eligible directory bottom-up (4094 generator runs quick); then gemato verify exits 0, the reference verdict is match with no path covered twice and BLAKE2B+SHA512 on every entry, gemato update -p ebuild on the untouched tree writes nothing, and every set of <=2 (quick) / <=3 (thorough) edits from 12 atoms (change/add/delete x package file, eclass file, metadata/glsa file, top-level file) followed by update -p ebuild and a fresh verify exits 0/0 (12k cases quick).',
   note='Trusted: refverify/refmanifest, sys.addaudithook. Shapes lacking the directories the scripts assume are out of scope. DONT_CARE for the no-op check only: categories without packages, non-category top-level directories containing sub-directories. The statement\'s 0..5 edits are cut to the stated bound.',
   ref='DESIGN.md §3 C20'),
}
NOT_YET = {}

def main():
    props = [json.loads(l)['id'] for l in open(os.path.join(V, 'properties.jsonl'))]
    checks = []
    for pid in props:
        c = CHECKS.get(pid)
        if not c:
            continue
        checks.append({
            'property_id': pid,
            'quick_cmd': f'{PY} -m gverif.run {pid} --tier quick',
            'thorough_cmd': f'{PY} -m gverif.run {pid} --tier thorough',
            'evidence_file': f'/verif/evidence/{pid}.json',
            'replay_cmd_template': f'{PY} -m gverif.run {pid} --replay {{path}}',
            'engine': 'gverif',
            'level_claimed': {'category': c['level'], 'text': c['text'], 'design_ref': c['ref']},
            'level_note': c['note'],
            'technique': c['technique'],
        })
    na = [{'property_id': p, 'reason': NOT_YET.get(p, 'check not built yet in this revision of /verif (planned, see DESIGN.md §3); model checking does apply')}
          for p in props if p not in CHECKS]
    m = {
        'version': 1,
        'setup_cmd': f'{PY} -c "import gemato, gverif.run" ',
        'hooks': {'guard': 'GEMATO_VERIF', 'enable': 'no source hooks: /repo is an editable install in /venv, all seams are monkeypatches applied by the harness process (GEMATO_VERIF=1 is exported by the runner for symmetry only)',
                  'baseline_off_cmd': 'cd /repo && /venv/bin/python -m pytest -ra -q -p no:cacheprovider --timeout=900 --continue-on-collection-errors',
                  'source_commits': [], 'add_only': True},
        'engines': [{'name': 'gverif', 'path': '/verif/gverif', 'serves_properties': sorted(CHECKS),
                     'kind_free_text': 'hand-written Python choice-tree explorer (stateless DFS over choice vectors, deviation-bounded) and state-graph explorer (BFS with canonical hashing) driving the real gemato code against executable reference models'}],
        'checks': checks,
        'not_applicable': na,
        'notes': 'Run from /verif. Exit 0 = held (KNOWN-FINDING lines possible), 1 = VIOLATION line printed, 2 = harness self-check failed. known_findings.json is never written at run time.',
    }
    if not na:
        del m['not_applicable']
    json.dump(m, open(os.path.join(V, 'MANIFEST.json'), 'w'), indent=1)
    print('wrote MANIFEST.json with', len(checks), 'checks;', len(na), 'not claimed')

if __name__ == '__main__':
    main()
