#!/bin/bash
# tools/benignrun.sh [PID...] - every archived behaviour-preserving refactor (benign/*.diff) against the given quick
# checks (default: all registered); each line must say "silent".  Seed-like runs overwrite evidence/: re-run
# tools/runall.sh on the clean tree afterwards.
cd /verif
PIDS="${*:-$(jq -r '.checks[].property_id' MANIFEST.json)}"
for d in benign/*.diff; do tools/benigncheck.sh "$d" $PIDS; done
