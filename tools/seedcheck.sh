#!/bin/bash
# usage: tools/seedcheck.sh <worktree> <A|B> PID [PID...]
# confirms a seeded change (tests still green, demo fails with / passes without), then runs our checks on it
WT="$1"; L="$2"; shift 2
D="$WT/seed_$L.diff"; DEMO="$WT/demo_$L.py"
[ -f "$D" ] || { echo "no $D"; exit 9; }
cd "$WT" || exit 9
git checkout -q -- gemato utils 2>/dev/null
git apply "$D" || { echo "PATCH DOES NOT APPLY in worktree"; exit 9; }
echo -n "tests with change: "; /verif/tools/baseline.py "$WT" | head -3 | tr '\n' ' '; echo
/venv/bin/python "$DEMO" >/tmp/seed_demo_out.txt 2>&1; echo "demo with change: exit $? ($(tail -1 /tmp/seed_demo_out.txt | cut -c1-120))"
git checkout -q -- gemato utils
/venv/bin/python "$DEMO" >/tmp/seed_demo_out.txt 2>&1; echo "demo without change: exit $?"
cd /repo && git apply "$D" || { echo "PATCH DOES NOT APPLY to /repo"; exit 9; }
cd /verif
for pid in "$@"; do
  out=$(timeout 1800 /venv/bin/python -m gverif.run "$pid" --tier "${TIER:-quick}" 2>&1); rc=$?
  echo "check $pid: rc=$rc viol=$(echo "$out" | grep -c '^VIOLATION') harness=$(echo "$out" | grep -c HARNESS-ERROR) :: $(echo "$out" | grep -E '^  [a-z_]+:' | head -2 | cut -c1-220 | tr '\n' '|')"
done
git -C /repo checkout -- .
