#!/bin/bash
# usage: tools/seedcheck.sh <worktree> <A|B> PID [PID...]
# confirms a seeded change (tests still green, demo fails with / passes without), then runs our checks against
# the patched WORKTREE (PYTHONPATH), so /repo is never touched and other runs are not disturbed
WT="$1"; L="$2"; shift 2
D="$WT/seed_$L.diff"; DEMO="$WT/demo_$L.py"
[ -f "$D" ] || { echo "no $D"; exit 9; }
cd "$WT" || exit 9
git checkout -q -- gemato utils 2>/dev/null
/venv/bin/python "$DEMO" >"$WT/.demo_out_$L.txt" 2>&1; echo "demo without change: exit $?"
git apply "$D" || { echo "PATCH DOES NOT APPLY in worktree"; exit 9; }
echo -n "tests with change: "; /verif/tools/baseline.py "$WT" | head -3 | tr '\n' ' '; echo
/venv/bin/python "$DEMO" >"$WT/.demo_out_$L.txt" 2>&1; echo "demo with change: exit $? ($(tail -1 "$WT/.demo_out_$L.txt" | cut -c1-120))"
cd /verif
for pid in "$@"; do
  out=$(PYTHONPATH="$WT" GVERIF_C20_UTILS="$WT/utils" timeout 1800 /venv/bin/python -m gverif.run "$pid" --tier "${TIER:-quick}" 2>&1); rc=$?
  echo "check $pid: rc=$rc viol=$(echo "$out" | grep -c '^VIOLATION') harness=$(echo "$out" | grep -c HARNESS-ERROR) :: $(echo "$out" | grep -E '^  [a-z_]+:' | head -2 | cut -c1-220 | tr '\n' '|')"
done
git -C "$WT" checkout -q -- gemato utils
