#!/bin/bash
# re-run every archived seeded change against the checks recorded to catch it; prints CAUGHT / MISSED per pair.
# Each change is applied to a throw-away git worktree of /repo (PYTHONPATH), /repo itself is never touched.
cd /verif
WT=$(mktemp -d /tmp/seedrun.XXXXXX)
git -C /repo worktree add -q --detach "$WT/r" HEAD || exit 9
trap 'git -C /repo worktree remove --force "$WT/r"; rm -rf "$WT"' EXIT
for d in seeded/*/; do
  id=$(basename $d)
  [ -n "$ONLY" ] && [[ ! " $ONLY " =~ " $id " ]] && continue
  checks=$(jq -r '.caught_by_quick_checks[]' $d/meta.json)
  git -C "$WT/r" checkout -q -- . ; git -C "$WT/r" apply "$PWD/$d/patch.diff" || { echo "$id: PATCH DOES NOT APPLY"; continue; }
  for pid in $checks; do
    out=$(PYTHONPATH="$WT/r" GVERIF_C20_UTILS="$WT/r/utils" timeout 1800 /venv/bin/python -m gverif.run $pid --tier ${TIER:-quick} 2>&1); rc=$?
    n=$(echo "$out" | grep -c '^VIOLATION')
    if [ $rc -eq 1 ] && [ $n -gt 0 ]; then echo "$id x $pid: CAUGHT ($n violation lines)"; else echo "$id x $pid: MISSED (rc=$rc)"; fi
  done
done
