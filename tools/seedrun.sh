#!/bin/bash
# re-run every archived seeded change against the checks recorded to catch it; prints CAUGHT / MISSED per pair
cd /verif
for d in seeded/*/; do
  id=$(basename $d)
  [ -n "$ONLY" ] && [[ ! " $ONLY " =~ " $id " ]] && continue
  checks=$(jq -r '.caught_by_quick_checks[]' $d/meta.json)
  git -C /repo apply $d/patch.diff || { echo "$id: PATCH DOES NOT APPLY"; continue; }
  for pid in $checks; do
    out=$(timeout 1800 /venv/bin/python -m gverif.run $pid --tier ${TIER:-quick} 2>&1); rc=$?
    n=$(echo "$out" | grep -c '^VIOLATION')
    if [ $rc -eq 1 ] && [ $n -gt 0 ]; then echo "$id x $pid: CAUGHT ($n violation lines)"; else echo "$id x $pid: MISSED (rc=$rc)"; fi
  done
  git -C /repo checkout -- .
done
