#!/bin/bash
# usage: tools/seedtry.sh <seed-id> PID [PID...]  - run quick checks against a kept seed in a private scratch worktree
SID="$1"; shift
WT=$(mktemp -d /tmp/seedtry.XXXXXX)/r
git -C /repo worktree add -q --detach "$WT" HEAD || exit 9
git -C "$WT" apply "/verif/seeded/$SID/patch.diff" || { echo "$SID: PATCH DOES NOT APPLY"; git -C /repo worktree remove --force "$WT"; exit 9; }
cd /verif
for pid in "$@"; do
  out=$(PYTHONPATH="$WT" GVERIF_C20_UTILS="$WT/utils" VERIF_SUMMARY=1 timeout 1800 /venv/bin/python -m gverif.run "$pid" --tier "${TIER:-quick}" 2>&1); rc=$?
  echo "$SID x $pid: rc=$rc viol=$(echo "$out" | grep -c '^VIOLATION') harness=$(echo "$out" | grep -c HARNESS-ERROR) :: $(echo "$out" | grep -E '^  [a-z_]+:' | head -${NSHOW:-2} | cut -c1-260 | tr '\n' '|')"
done
git -C /repo worktree remove --force "$WT"; rmdir "$(dirname "$WT")" 2>/dev/null
