#!/bin/bash
# usage: tools/mut.sh <patch-or-pyscript> PID [PID...]   — apply a change to /repo, run quick checks, revert
set -u
P="$1"; shift
cd /repo || exit 9
if [[ "$P" == *.py ]]; then python3 "$P" || { git checkout -- .; exit 9; }; else git apply "$P" || exit 9; fi
git diff --stat | tail -1
cd /verif
for pid in "$@"; do
  /venv/bin/python -m gverif.run "$pid" --tier "${TIER:-quick}" 2>&1 | grep -E "VIOLATION|HARNESS-ERROR|tier=" | head -${LINES_MAX:-6}
done
git -C /repo checkout -- .
