#!/bin/bash
# run every registered check's quick (or $TIER) command; print one line each
cd /verif
for pid in $(jq -r '.checks[].property_id' MANIFEST.json); do
  [ -n "$ONLY" ] && [[ ! " $ONLY " =~ " $pid " ]] && continue
  s=$(date +%s)
  out=$(timeout ${TMO:-1800} /venv/bin/python -m gverif.run $pid --tier ${TIER:-quick} 2>&1); rc=$?
  e=$(( $(date +%s) - s ))
  echo "$pid rc=$rc ${e}s $(echo "$out" | grep -cE '^VIOLATION') viol $(echo "$out" | grep -c '^KNOWN-FINDING') known $(echo "$out" | grep -c 'HARNESS-ERROR') harness-err"
done
