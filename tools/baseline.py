#!/usr/bin/env python3
"""Run the repository's pinned baseline (command from /root/.vp/BASELINE.json) in the
directory given as argv[1] (default /repo) and report stable tests that no longer pass."""
import json, os, subprocess, sys, tempfile, xml.etree.ElementTree as ET
repo = sys.argv[1] if len(sys.argv) > 1 else '/repo'
base = json.load(open('/root/.vp/BASELINE.json'))
stable = set(base['stable_pass'])
fd, xml = tempfile.mkstemp(suffix='.xml'); os.close(fd)
env = dict(os.environ); env.pop('GEMATO_VERIF', None)
subprocess.run(['/venv/bin/python', '-m', 'pytest', '-ra', '-q', '-p', 'no:cacheprovider', '--timeout=900',
                '--continue-on-collection-errors', f'--junitxml={xml}'], cwd=repo, env=env,
               stdout=subprocess.DEVNULL, stderr=subprocess.DEVNULL)
passed = set()
for tc in ET.parse(xml).getroot().iter('testcase'):
    if not any(c.tag in ('failure', 'error', 'skipped') for c in tc):
        passed.add(f"{tc.get('classname')}::{tc.get('name')}")
os.unlink(xml)
missing = sorted(stable - passed)
print(f'stable={len(stable)} passed_now={len(passed)} stable_not_passing={len(missing)}')
for m in missing[:20]:
    print('  NOT PASSING:', m)
sys.exit(1 if missing else 0)
