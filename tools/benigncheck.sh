#!/bin/bash
# usage: tools/benigncheck.sh <diff> PID...   — a property-PRESERVING change: every check must stay silent (rc=0)
D="$1"; shift
WT=$(mktemp -d /tmp/benign.XXXXXX)
git -C /repo worktree add -q --detach "$WT/r" HEAD || exit 9
trap 'git -C /repo worktree remove --force "$WT/r"; rm -rf "$WT"' EXIT
grep -v '^# ' "$D" > "$WT/p.diff"
git -C "$WT/r" apply "$WT/p.diff" || { echo "$(basename $D): PATCH DOES NOT APPLY"; exit 9; }
cd /verif
for pid in "$@"; do
  out=$(PYTHONPATH="$WT/r" GVERIF_C20_UTILS="$WT/r/utils" timeout 1800 /venv/bin/python -m gverif.run $pid --tier quick 2>&1); rc=$?
  if [ $rc -eq 0 ]; then echo "$(basename $(dirname $D))/$(basename $D) x $pid: silent"; else
    echo "$(basename $(dirname $D))/$(basename $D) x $pid: ALARM rc=$rc :: $(echo "$out" | grep -E '^  [a-z_]+:|HARNESS-ERROR|Traceback' | head -2 | cut -c1-260 | tr '\n' '|')"; fi
done
